//! C12 — structured search selects exactly the atoms for which the expression is true.
use crate::enc::*;
use crate::rng::Rng;
use crate::st::*;
use crate::{budget, guarded, Exec, Failure};
use pdbtbx::*;

#[derive(Clone, Debug)]
pub enum Tm {
    Ms(usize), Msr(usize, usize), Ci(String), Cir(String, String),
    Rs(i64), Rsr(i64, i64), Ric(Option<String>), Rid(i64, Option<String>),
    Fn(String), Fa(Option<String>), Fid(String, Option<String>),
    As(usize), Asr(usize, usize), An(String), El(usize),
    Bf(i64), Bfr(i64, i64), Oc(i64), Ocr(i64, i64), Bb, Sc, Het,
}
#[derive(Clone, Debug)]
pub enum Ex {
    And(Box<Ex>, Box<Ex>), Or(Box<Ex>, Box<Ex>), Xor(Box<Ex>, Box<Ex>), Not(Box<Ex>), T(Tm), K(bool),
}

impl Tm {
    pub fn tok(&self) -> String {
        match self {
            Tm::Ms(n) => format!("ms:{n}"),
            Tm::Msr(a, b) => format!("msr:{a}:{b}"),
            Tm::Ci(s) => format!("ci:{}", enc_str(s)),
            Tm::Cir(a, b) => format!("cir:{}:{}", enc_str(a), enc_str(b)),
            Tm::Rs(n) => format!("rs:{n}"),
            Tm::Rsr(a, b) => format!("rsr:{a}:{b}"),
            Tm::Ric(o) => format!("ric:{}", enc_opt(o.as_deref())),
            Tm::Rid(n, o) => format!("rid:{n}:{}", enc_opt(o.as_deref())),
            Tm::Fn(s) => format!("fn:{}", enc_str(s)),
            Tm::Fa(o) => format!("fa:{}", enc_opt(o.as_deref())),
            Tm::Fid(s, o) => format!("fid:{}:{}", enc_str(s), enc_opt(o.as_deref())),
            Tm::As(n) => format!("as:{n}"),
            Tm::Asr(a, b) => format!("asr:{a}:{b}"),
            Tm::An(s) => format!("an:{}", enc_str(s)),
            Tm::El(n) => format!("el:{n}"),
            Tm::Bf(v) => format!("bf:{v}"),
            Tm::Bfr(a, b) => format!("bfr:{a}:{b}"),
            Tm::Oc(v) => format!("oc:{v}"),
            Tm::Ocr(a, b) => format!("ocr:{a}:{b}"),
            Tm::Bb => "bb".into(),
            Tm::Sc => "sc".into(),
            Tm::Het => "het".into(),
        }
    }
    pub fn parse(t: &str) -> Option<Tm> {
        let p: Vec<&str> = t.split(':').collect();
        Some(match (p[0], p.len()) {
            ("ms", 2) => Tm::Ms(p[1].parse().ok()?),
            ("msr", 3) => Tm::Msr(p[1].parse().ok()?, p[2].parse().ok()?),
            ("ci", 2) => Tm::Ci(dec_str(p[1])?),
            ("cir", 3) => Tm::Cir(dec_str(p[1])?, dec_str(p[2])?),
            ("rs", 2) => Tm::Rs(p[1].parse().ok()?),
            ("rsr", 3) => Tm::Rsr(p[1].parse().ok()?, p[2].parse().ok()?),
            ("ric", 2) => Tm::Ric(dec_opt(p[1])?),
            ("rid", 3) => Tm::Rid(p[1].parse().ok()?, dec_opt(p[2])?),
            ("fn", 2) => Tm::Fn(dec_str(p[1])?),
            ("fa", 2) => Tm::Fa(dec_opt(p[1])?),
            ("fid", 3) => Tm::Fid(dec_str(p[1])?, dec_opt(p[2])?),
            ("as", 2) => Tm::As(p[1].parse().ok()?),
            ("asr", 3) => Tm::Asr(p[1].parse().ok()?, p[2].parse().ok()?),
            ("an", 2) => Tm::An(dec_str(p[1])?),
            ("el", 2) => Tm::El(p[1].parse().ok()?),
            ("bf", 2) => Tm::Bf(p[1].parse().ok()?),
            ("bfr", 3) => Tm::Bfr(p[1].parse().ok()?, p[2].parse().ok()?),
            ("oc", 2) => Tm::Oc(p[1].parse().ok()?),
            ("ocr", 3) => Tm::Ocr(p[1].parse().ok()?, p[2].parse().ok()?),
            ("bb", 1) => Tm::Bb,
            ("sc", 1) => Tm::Sc,
            ("het", 1) => Tm::Het,
            _ => return None,
        })
    }
    pub fn real(&self) -> Term {
        match self.clone() {
            Tm::Ms(n) => Term::ModelSerialNumber(n),
            Tm::Msr(a, b) => Term::ModelSerialNumberRange(a, b),
            Tm::Ci(s) => Term::ChainId(s),
            Tm::Cir(a, b) => Term::ChainIdRange(a, b),
            Tm::Rs(n) => Term::ResidueSerialNumber(n as isize),
            Tm::Rsr(a, b) => Term::ResidueSerialNumberRange(a as isize, b as isize),
            Tm::Ric(o) => Term::ResidueInsertionCode(o),
            Tm::Rid(n, o) => Term::ResidueId(n as isize, o),
            Tm::Fn(s) => Term::ConformerName(s),
            Tm::Fa(o) => Term::ConformerAlternativeLocation(o),
            Tm::Fid(s, o) => Term::ConformerId(s, o),
            Tm::As(n) => Term::AtomSerialNumber(n),
            Tm::Asr(a, b) => Term::AtomSerialNumberRange(a, b),
            Tm::An(s) => Term::AtomName(s),
            Tm::El(n) => Term::Element(Element::new(n).expect("element")),
            Tm::Bf(v) => Term::BFactor(undec6(v)),
            Tm::Bfr(a, b) => Term::BFactorRange(undec6(a), undec6(b)),
            Tm::Oc(v) => Term::Occupancy(undec6(v)),
            Tm::Ocr(a, b) => Term::OccupancyRange(undec6(a), undec6(b)),
            Tm::Bb => Term::Backbone,
            Tm::Sc => Term::SideChain,
            Tm::Het => Term::Hetero,
        }
    }
}

impl Ex {
    pub fn toks(&self, o: &mut Vec<String>) {
        match self {
            Ex::And(a, b) => { o.push("&".into()); a.toks(o); b.toks(o); }
            Ex::Or(a, b) => { o.push("|".into()); a.toks(o); b.toks(o); }
            Ex::Xor(a, b) => { o.push("^".into()); a.toks(o); b.toks(o); }
            Ex::Not(a) => { o.push("!".into()); a.toks(o); }
            Ex::T(t) => o.push(t.tok()),
            Ex::K(b) => o.push(if *b { "k1".into() } else { "k0".into() }),
        }
    }
    pub fn parse(t: &mut Toks) -> Option<Ex> {
        let s = t.next()?;
        Some(match s {
            "&" => { let a = Ex::parse(t)?; let b = Ex::parse(t)?; Ex::And(Box::new(a), Box::new(b)) }
            "|" => { let a = Ex::parse(t)?; let b = Ex::parse(t)?; Ex::Or(Box::new(a), Box::new(b)) }
            "^" => { let a = Ex::parse(t)?; let b = Ex::parse(t)?; Ex::Xor(Box::new(a), Box::new(b)) }
            "!" => Ex::Not(Box::new(Ex::parse(t)?)),
            "k1" => Ex::K(true),
            "k0" => Ex::K(false),
            _ => Ex::T(Tm::parse(s)?),
        })
    }
    pub fn real(&self) -> Search {
        match self {
            Ex::And(a, b) => a.real() & b.real(),
            Ex::Or(a, b) => a.real() | b.real(),
            Ex::Xor(a, b) => a.real() ^ b.real(),
            Ex::Not(a) => !a.real(),
            Ex::T(t) => Search::Single(t.real()),
            Ex::K(b) => Search::Known(*b),
        }
    }
    pub fn depth(&self) -> usize {
        match self {
            Ex::And(a, b) | Ex::Or(a, b) | Ex::Xor(a, b) => 1 + a.depth().max(b.depth()),
            Ex::Not(a) => 1 + a.depth(),
            _ => 0,
        }
    }
}

/// Kleene three-valued logic, independent transcription for the oracle: Some(b) known, None unknown
fn k_and(a: Option<bool>, b: Option<bool>) -> Option<bool> {
    match (a, b) { (Some(false), _) | (_, Some(false)) => Some(false), (Some(true), Some(true)) => Some(true), _ => None }
}
fn k_or(a: Option<bool>, b: Option<bool>) -> Option<bool> {
    match (a, b) { (Some(true), _) | (_, Some(true)) => Some(true), (Some(false), Some(false)) => Some(false), _ => None }
}
fn k_xor(a: Option<bool>, b: Option<bool>) -> Option<bool> {
    match (a, b) { (Some(x), Some(y)) => Some(x != y), _ => None }
}

/// what the hierarchy tuple exposes: ancestors that the entry point does not return are `None`
pub struct Ctx<'a> {
    pub atom: &'a Atom,
    pub conformer: Option<&'a Conformer>,
    pub residue: Option<&'a Residue>,
    pub chain: Option<&'a Chain>,
    pub model: Option<&'a Model>,
}

const AMINO: &[&str] = &["ALA", "ARG", "ASH", "ASN", "ASP", "ASX", "CYS", "CYX", "GLH", "GLN", "GLU", "GLY", "HID", "HIE", "HIM", "HIP", "HIS", "ILE", "LEU", "LYN", "LYS", "MET", "PHE", "PRO", "SER", "THR", "TRP", "TYR", "VAL", "SEC", "PYL"];
const BACKBONE: &[&str] = &["N", "CA", "C", "O", "H", "H1", "H2", "H3", "HA", "HA2", "HA3"];

fn term_value(t: &Tm, c: &Ctx) -> Option<bool> {
    let a = c.atom;
    match t {
        Tm::Ms(n) => c.model.map(|m| m.serial_number() == *n),
        Tm::Msr(lo, hi) => c.model.map(|m| *lo <= m.serial_number() && m.serial_number() <= *hi),
        Tm::Ci(s) => c.chain.map(|ch| ch.id() == s),
        Tm::Cir(lo, hi) => c.chain.map(|ch| lo.as_str() <= ch.id() && ch.id() <= hi.as_str()),
        Tm::Rs(n) => c.residue.map(|r| r.serial_number() as i64 == *n),
        Tm::Rsr(lo, hi) => c.residue.map(|r| *lo <= r.serial_number() as i64 && r.serial_number() as i64 <= *hi),
        Tm::Ric(o) => c.residue.map(|r| r.insertion_code() == o.as_deref()),
        Tm::Rid(n, o) => c.residue.map(|r| r.serial_number() as i64 == *n && r.insertion_code() == o.as_deref()),
        Tm::Fn(s) => c.conformer.map(|f| f.name() == s),
        Tm::Fa(o) => c.conformer.map(|f| f.alternative_location() == o.as_deref()),
        Tm::Fid(s, o) => c.conformer.map(|f| f.name() == s && f.alternative_location() == o.as_deref()),
        Tm::As(n) => Some(a.serial_number() == *n),
        Tm::Asr(lo, hi) => Some(*lo <= a.serial_number() && a.serial_number() <= *hi),
        Tm::An(s) => Some(a.name() == s),
        Tm::El(n) => a.element().map(|e| e.atomic_number() == *n),
        Tm::Bf(v) => Some(dec6(a.b_factor()) == *v),
        Tm::Bfr(lo, hi) => Some(*lo <= dec6(a.b_factor()) && dec6(a.b_factor()) <= *hi),
        Tm::Oc(v) => Some(dec6(a.occupancy()) == *v),
        Tm::Ocr(lo, hi) => Some(*lo <= dec6(a.occupancy()) && dec6(a.occupancy()) <= *hi),
        // backbone / side chain: decided false by a non-amino-acid conformer when the conformer is part
        // of the tuple, otherwise by the atom name (DESIGN §7 C12 reading)
        Tm::Bb => match c.conformer {
            Some(f) if !AMINO.contains(&f.name()) => Some(false),
            _ => Some(BACKBONE.contains(&a.name())),
        },
        Tm::Sc => match c.conformer {
            Some(f) if !AMINO.contains(&f.name()) => Some(false),
            _ => Some(!BACKBONE.contains(&a.name())),
        },
        Tm::Het => Some(a.hetero()),
    }
}

pub fn eval(e: &Ex, c: &Ctx) -> Option<bool> {
    match e {
        Ex::And(a, b) => k_and(eval(a, c), eval(b, c)),
        Ex::Or(a, b) => k_or(eval(a, c), eval(b, c)),
        Ex::Xor(a, b) => k_xor(eval(a, c), eval(b, c)),
        Ex::Not(a) => eval(a, c).map(|x| !x),
        Ex::T(t) => term_value(t, c),
        Ex::K(b) => Some(*b),
    }
}

// ------------------------------------------------------------------------------------------------

pub fn alphabet() -> Vec<Tm> {
    vec![
        Tm::Ms(1), Tm::Ci("A".into()), Tm::Cir("A".into(), "B".into()), Tm::Rsr(0, 5), Tm::Ric(None),
        Tm::Fn("ALA".into()), Tm::Fa(Some("A".into())), Tm::An("CA".into()), Tm::El(6), Tm::Bb, Tm::Sc, Tm::Het,
    ]
}

fn all_exprs(depth: usize, alpha: &[Tm], out: &mut Vec<Ex>) {
    // depth 0: terms and constants; depth d: ops over (depth d-1 first operand from a small pool)
    let mut level: Vec<Ex> = alpha.iter().cloned().map(Ex::T).collect();
    level.push(Ex::K(true));
    level.push(Ex::K(false));
    out.extend(level.iter().cloned());
    let mut prev = level;
    for _ in 0..depth {
        let mut next = Vec::new();
        for a in &prev {
            next.push(Ex::Not(Box::new(a.clone())));
        }
        // binary: pair every previous-level expression with every leaf (both orders for `and`)
        let leaves: Vec<Ex> = alpha.iter().cloned().map(Ex::T).chain([Ex::K(true), Ex::K(false)]).collect();
        for a in &prev {
            for b in &leaves {
                next.push(Ex::And(Box::new(a.clone()), Box::new(b.clone())));
                next.push(Ex::Or(Box::new(b.clone()), Box::new(a.clone())));
                next.push(Ex::Xor(Box::new(a.clone()), Box::new(b.clone())));
            }
        }
        out.extend(next.iter().cloned());
        prev = next;
    }
}

fn gen_term(r: &mut Rng, s: &SPdb) -> Tm {
    // draw constants from the structure itself so that terms hit, plus near misses
    let atoms: Vec<&SAtom> = s.models.iter().flat_map(|m| &m.chains).flat_map(|c| &c.residues).flat_map(|x| &x.confs).flat_map(|f| &f.atoms).collect();
    let a = if atoms.is_empty() { None } else { Some(atoms[r.below(atoms.len())]) };
    match r.below(22) {
        0 => Tm::Ms(r.below(4)),
        1 => { let x = r.below(4); Tm::Msr(x, x + r.below(3)) }
        2 => Tm::Ci(r.pick(CHAIN_IDS).to_string()),
        3 => Tm::Cir(r.pick(&["A", "0", "a"]).to_string(), r.pick(&["B", "Z9", "b", "A"]).to_string()),
        4 => Tm::Rs(r.range(-3, 22)),
        5 => { let x = r.range(-5, 20); Tm::Rsr(x, x + r.range(0, 8)) }
        6 => Tm::Ric(r.pick(ICODES).map(|s| s.to_string())),
        7 => Tm::Rid(r.range(-3, 22), r.pick(ICODES).map(|s| s.to_string())),
        8 => Tm::Fn(r.pick(CONF_NAMES).to_string()),
        9 => Tm::Fa(r.pick(ALTS).map(|s| s.to_string())),
        10 => Tm::Fid(r.pick(CONF_NAMES).to_string(), r.pick(ALTS).map(|s| s.to_string())),
        11 => Tm::As(a.map_or(1, |a| a.serial)),
        12 => { let x = a.map_or(1, |a| a.serial); Tm::Asr(x.saturating_sub(r.below(4)), x + r.below(4)) }
        13 => Tm::An(r.pick(ATOM_NAMES).to_string()),
        14 => Tm::El(*r.pick(&[1usize, 6, 7, 8, 12, 16])),
        15 => Tm::Bf(a.map_or(0, |a| a.b)),
        // range ends coincide with a value of the structure in a third of the draws each (closed intervals)
        16 => { let x = a.map_or(0, |a| a.b); Tm::Bfr(x - if r.chance(1, 3) { 0 } else { r.range(0, 30) * 10_000 }, x + if r.chance(1, 3) { 0 } else { r.range(0, 30) * 10_000 }) }
        17 => Tm::Oc(a.map_or(1_000_000, |a| a.occ)),
        18 => { let x = a.map_or(0, |a| a.occ); Tm::Ocr(x - if r.chance(1, 3) { 0 } else { r.range(0, 30) * 10_000 }, x + if r.chance(1, 3) { 0 } else { r.range(0, 30) * 10_000 }) }
        19 => Tm::Bb,
        20 => Tm::Sc,
        _ => Tm::Het,
    }
}

fn gen_expr(r: &mut Rng, s: &SPdb, depth: usize) -> Ex {
    if depth == 0 || r.chance(1, 4) {
        return if r.chance(1, 12) { Ex::K(r.chance(1, 2)) } else { Ex::T(gen_term(r, s)) };
    }
    match r.below(4) {
        0 => Ex::And(Box::new(gen_expr(r, s, depth - 1)), Box::new(gen_expr(r, s, depth - 1))),
        1 => Ex::Or(Box::new(gen_expr(r, s, depth - 1)), Box::new(gen_expr(r, s, depth - 1))),
        2 => Ex::Xor(Box::new(gen_expr(r, s, depth - 1)), Box::new(gen_expr(r, s, depth - 1))),
        _ => Ex::Not(Box::new(gen_expr(r, s, depth - 1))),
    }
}

const LEVELS: &[&str] = &["pdb", "model", "chain", "residue", "conformer"];

fn case_line(level: &str, path: [usize; 4], e: &Ex, s: &SPdb) -> String {
    let mut o = vec!["c12".to_string(), "find".into(), level.into()];
    for p in path { o.push(p.to_string()); }
    e.toks(&mut o);
    o.push(";".into());
    s.toks(&mut o);
    o.join(" ")
}

fn pick_path(r: &mut Rng, s: &SPdb) -> Option<[usize; 4]> {
    if s.models.is_empty() { return None; }
    let im = r.below(s.models.len());
    let m = &s.models[im];
    if m.chains.is_empty() { return Some([im, 0, 0, 0]); }
    let ic = r.below(m.chains.len());
    let c = &m.chains[ic];
    if c.residues.is_empty() { return Some([im, ic, 0, 0]); }
    let ir = r.below(c.residues.len());
    let x = &c.residues[ir];
    if x.confs.is_empty() { return Some([im, ic, ir, 0]); }
    Some([im, ic, ir, r.below(x.confs.len())])
}

pub fn gen(tier: &str, r: &mut Rng) -> Vec<String> {
    let mut out = Vec::new();
    let o = GenOpts { max_models: 2, max_chains: 3, max_res: 3, max_conf: 2, max_atoms: 4, aniso: false, ..GenOpts::default() };
    // exhaustive expression trees over the 12-term alphabet
    let depth = if tier == "thorough" { 2 } else { 1 };
    let mut exprs = Vec::new();
    all_exprs(depth, &alphabet(), &mut exprs);
    let n_structs = budget(tier, 3, 30);
    for k in 0..n_structs {
        let mut s = gen_pdb(r, &o);
        if k % 2 == 1 { for m in s.models.iter_mut() { for c in m.chains.iter_mut() { for x in c.residues.iter_mut() { for f in x.confs.iter_mut() {
            let mut ser: Vec<usize> = f.atoms.iter().map(|a| a.serial).collect();
            ser.reverse();
            for (a, v) in f.atoms.iter_mut().zip(ser) { a.serial = v; }
        } } } } }
        let (_, back) = realise(&s);
        for e in &exprs {
            let level = LEVELS[r.below(LEVELS.len())];
            if let Some(p) = pick_path(r, &back) {
                out.push(case_line(level, p, e, &back));
            } else {
                out.push(case_line("pdb", [0, 0, 0, 0], e, &back));
            }
        }
    }
    // bare serial-number terms on conformers whose serial numbers do not go up (a search that narrows the atoms down by
    // serial number must not take them for sorted)
    for k in 0..budget(tier, 40, 400) {
        let o6 = GenOpts { max_atoms: 6, ..o };
        let mut s = gen_pdb(r, &o6);
        for m in s.models.iter_mut() { for c in m.chains.iter_mut() { for x in c.residues.iter_mut() { for f in x.confs.iter_mut() {
            let mut ser: Vec<usize> = f.atoms.iter().map(|a| a.serial).collect();
            if k % 2 == 0 { ser.reverse(); } else if ser.len() > 2 { ser.rotate_left(1); let n = ser.len(); ser.swap(0, n - 1); ser.swap(0, 1); }
            for (a, v) in f.atoms.iter_mut().zip(ser) { a.serial = v; }
        } } } }
        let (_, back) = realise(&s);
        let serials: Vec<usize> = back.models.iter().flat_map(|m| m.chains.iter()).flat_map(|c| c.residues.iter()).flat_map(|x| x.confs.iter()).flat_map(|f| f.atoms.iter()).map(|a| a.serial).collect();
        if serials.is_empty() { continue; }
        for _ in 0..4 {
            let v = *r.pick(&serials);
            let e = if r.chance(1, 2) { Ex::T(Tm::As(v)) } else { Ex::T(Tm::Asr(v.saturating_sub(r.below(3)), v + r.below(3))) };
            let level = LEVELS[r.below(LEVELS.len())];
            if let Some(p) = pick_path(r, &back) { out.push(case_line(level, p, &e, &back)); } else { out.push(case_line("pdb", [0, 0, 0, 0], &e, &back)); }
        }
    }
    // random trees to depth 8
    let n_rand = budget(tier, 1500, 60000);
    for k in 0..n_rand {
        let mut s = gen_pdb(r, &o);
        // serial numbers need not go up inside a conformer (edits, joins, files listing atoms in another order)
        if k % 3 == 0 { for m in s.models.iter_mut() { for c in m.chains.iter_mut() { for x in c.residues.iter_mut() { for f in x.confs.iter_mut() {
            let mut ser: Vec<usize> = f.atoms.iter().map(|a| a.serial).collect();
            if k % 2 == 0 { ser.reverse(); } else if ser.len() > 1 { let i = r.below(ser.len() - 1); ser.swap(i, i + 1); ser.rotate_left(1); }
            for (a, v) in f.atoms.iter_mut().zip(ser) { a.serial = v; }
        } } } } }
        let (_, back) = realise(&s);
        let d = 1 + r.below(8);
        let e = gen_expr(r, &back, d);
        let level = LEVELS[r.below(LEVELS.len())];
        let p = pick_path(r, &back).unwrap_or([0, 0, 0, 0]);
        let level = if back.models.is_empty() { "pdb" } else { level };
        out.push(case_line(level, p, &e, &back));
    }
    out
}

fn show(id: &str, f: Option<&Conformer>, x: Option<&Residue>, c: Option<&Chain>, m: Option<&Model>) -> String {
    let mut s = enc_str(id);
    if let Some(f) = f { s += &format!("/{}/{}", enc_str(f.name()), enc_opt(f.alternative_location())); }
    if let Some(x) = x { s += &format!("/{}/{}", x.serial_number(), enc_opt(x.insertion_code())); }
    if let Some(c) = c { s += &format!("/{}", enc_str(c.id())); }
    if let Some(m) = m { s += &format!("/{}", m.serial_number()); }
    s
}

pub fn exec(case: &str) -> Exec {
    let mut t = Toks::new(case);
    t.expect("c12").unwrap();
    t.expect("find").unwrap();
    let level = t.next().unwrap().to_string();
    let path = [t.usize().unwrap(), t.usize().unwrap(), t.usize().unwrap(), t.usize().unwrap()];
    let e = Ex::parse(&mut t).expect("expr");
    t.expect(";").unwrap();
    let s = SPdb::parse(&mut t).expect("structure");
    let mut pdb = s.to_real().expect("builds");
    let search = e.real();
    let mut ex = Exec::new(case, "");
    ex.tags.push(format!("level:{level}"));
    ex.tags.push(format!("depth:{}", e.depth()));

    // found (implementation), expected (oracle over atoms_with_hierarchy), found by find_mut
    let res = guarded(|| -> Option<(Vec<String>, Vec<String>, Vec<String>)> {
        match level.as_str() {
            "pdb" => {
                let found: Vec<String> = pdb.find(search.clone()).map(|h| show(h.atom().id(), Some(h.conformer()), Some(h.residue()), Some(h.chain()), Some(h.model()))).collect();
                let want: Vec<String> = pdb.atoms_with_hierarchy()
                    .filter(|h| eval(&e, &Ctx { atom: h.atom(), conformer: Some(h.conformer()), residue: Some(h.residue()), chain: Some(h.chain()), model: Some(h.model()) }) != Some(false))
                    .map(|h| show(h.atom().id(), Some(h.conformer()), Some(h.residue()), Some(h.chain()), Some(h.model()))).collect();
                let fm: Vec<String> = pdb.find_mut(search.clone()).map(|h| show(h.atom().id(), Some(h.conformer()), Some(h.residue()), Some(h.chain()), Some(h.model()))).collect();
                Some((found, want, fm))
            }
            "model" => {
                let m = pdb.model(path[0])?;
                let found: Vec<String> = m.find(search.clone()).map(|h| show(h.atom().id(), Some(h.conformer()), Some(h.residue()), Some(h.chain()), None)).collect();
                let want: Vec<String> = m.atoms_with_hierarchy()
                    .filter(|h| eval(&e, &Ctx { atom: h.atom(), conformer: Some(h.conformer()), residue: Some(h.residue()), chain: Some(h.chain()), model: None }) != Some(false))
                    .map(|h| show(h.atom().id(), Some(h.conformer()), Some(h.residue()), Some(h.chain()), None)).collect();
                let m = pdb.model_mut(path[0])?;
                let fm: Vec<String> = m.find_mut(search.clone()).map(|h| show(h.atom().id(), Some(h.conformer()), Some(h.residue()), Some(h.chain()), None)).collect();
                Some((found, want, fm))
            }
            "chain" => {
                let c = pdb.model(path[0])?.chain(path[1])?;
                let found: Vec<String> = c.find(search.clone()).map(|h| show(h.atom().id(), Some(h.conformer()), Some(h.residue()), None, None)).collect();
                let want: Vec<String> = c.atoms_with_hierarchy()
                    .filter(|h| eval(&e, &Ctx { atom: h.atom(), conformer: Some(h.conformer()), residue: Some(h.residue()), chain: None, model: None }) != Some(false))
                    .map(|h| show(h.atom().id(), Some(h.conformer()), Some(h.residue()), None, None)).collect();
                let c = pdb.model_mut(path[0])?.chain_mut(path[1])?;
                let fm: Vec<String> = c.find_mut(search.clone()).map(|h| show(h.atom().id(), Some(h.conformer()), Some(h.residue()), None, None)).collect();
                Some((found, want, fm))
            }
            "residue" => {
                let x = pdb.model(path[0])?.chain(path[1])?.residue(path[2])?;
                let found: Vec<String> = x.find(search.clone()).map(|h| show(h.atom().id(), Some(h.conformer()), None, None, None)).collect();
                let want: Vec<String> = x.atoms_with_hierarchy()
                    .filter(|h| eval(&e, &Ctx { atom: h.atom(), conformer: Some(h.conformer()), residue: None, chain: None, model: None }) != Some(false))
                    .map(|h| show(h.atom().id(), Some(h.conformer()), None, None, None)).collect();
                let x = pdb.model_mut(path[0])?.chain_mut(path[1])?.residue_mut(path[2])?;
                let fm: Vec<String> = x.find_mut(search.clone()).map(|h| show(h.atom().id(), Some(h.conformer()), None, None, None)).collect();
                Some((found, want, fm))
            }
            "conformer" => {
                let f = pdb.model(path[0])?.chain(path[1])?.residue(path[2])?.conformer(path[3])?;
                let found: Vec<String> = f.find(search.clone()).map(|a| show(a.id(), None, None, None, None)).collect();
                let want: Vec<String> = f.atoms()
                    .filter(|a| eval(&e, &Ctx { atom: a, conformer: None, residue: None, chain: None, model: None }) != Some(false))
                    .map(|a| show(a.id(), None, None, None, None)).collect();
                let f = pdb.model_mut(path[0])?.chain_mut(path[1])?.residue_mut(path[2])?.conformer_mut(path[3])?;
                let fm: Vec<String> = f.find_mut(search.clone()).map(|a| show(a.id(), None, None, None, None)).collect();
                Some((found, want, fm))
            }
            _ => None,
        }
    });
    match res {
        Err(m) => {
            ex.resp = "PANIC".into();
            ex.failures.push(Failure::new("find-panicked", m).feat("level", &level));
        }
        Ok(None) => {
            ex.resp = "BAD-REQUEST".into(); // container path does not exist: model answers the same
            ex.tags.push("no-container".into());
        }
        Ok(Some((found, want, fm))) => {
            ex.resp = format!("{} {}", found.len(), found.join(" ")).trim_end().to_string();
            if found.is_empty() { ex.tags.push("selects:none".into()); } else if found.len() == want.len() { ex.tags.push("selects:some".into()); }
            if found != want {
                ex.failures.push(Failure::new("find-differs-from-three-valued-filter", format!("found {} want {}", found.len(), want.len())).feat("level", &level));
            }
            if fm != found {
                ex.failures.push(Failure::new("find-mut-differs-from-find", format!("find {} find_mut {}", found.len(), fm.len())).feat("level", &level));
            }
        }
    }
    ex
}
