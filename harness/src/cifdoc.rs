//! Grammar-directed writer of mmCIF text (never uses the library's writer): an abstract document (metadata +
//! atom_site rows), a renderer with every legal spelling / layout choice, and the structure the rows state,
//! built through the public API.
use crate::rng::Rng;
use pdbtbx::*;

#[derive(Clone, Debug)]
pub struct CifRow {
    pub group: String,
    pub id: String,
    pub element: String,
    pub name: String,
    pub alt: Option<String>,
    pub comp: String,
    pub label_asym: String,
    pub auth_asym: Option<String>,
    pub label_seq: Option<i64>,
    pub auth_seq: Option<i64>,
    pub ins: Option<String>,
    pub x: i64,
    pub y: i64,
    pub z: i64,
    pub occ: i64,
    pub b: i64,
    pub charge: i64,
    pub model: usize,
    pub aniso: Option<[i64; 9]>,
}

#[derive(Clone, Debug, Default)]
pub struct CifDoc {
    pub name: String,
    pub cell: Option<[i64; 6]>,
    pub sg_hm: Option<String>,
    pub sg_num: Option<usize>,
    pub scale: Option<[[i64; 4]; 3]>,
    pub origx: Option<[[i64; 4]; 3]>,
    pub ncs: Vec<(usize, [[i64; 4]; 3], bool)>,
    pub rows: Vec<CifRow>,
    /// optional columns that are written
    pub cols: Vec<&'static str>,
    /// a single token replaced in the rendering: (row, column, token)
    pub replace: Option<(usize, String, String)>,
}

pub const OPTIONAL: &[&str] = &["group_PDB", "label_alt_id", "auth_asym_id", "auth_seq_id", "pdbx_PDB_ins_code", "occupancy", "B_iso_or_equiv", "pdbx_formal_charge", "pdbx_PDB_model_num", "aniso"];
pub const MANDATORY: &[&str] = &["id", "type_symbol", "label_atom_id", "label_comp_id", "label_asym_id", "label_seq_id", "Cartn_x", "Cartn_y", "Cartn_z"];
pub const NUMERIC: &[&str] = &["label_seq_id", "auth_seq_id", "Cartn_x", "Cartn_y", "Cartn_z", "occupancy", "B_iso_or_equiv", "pdbx_formal_charge", "pdbx_PDB_model_num"];

fn matrix(r: &mut Rng) -> [[i64; 4]; 3] {
    let mut m = [[0i64; 4]; 3];
    for (i, row) in m.iter_mut().enumerate() { for (j, v) in row.iter_mut().enumerate() {
        *v = if j == 3 { r.range(-99_999, 99_999) * 10 } else if i == j && r.chance(1, 2) { 1_000_000 } else { r.range(-999_999, 999_999) };
    } }
    m
}

pub fn gen_doc(r: &mut Rng, with_h: bool, mixed_alt: bool) -> CifDoc { gen_doc_ids(r, with_h, mixed_alt, false) }

pub fn gen_doc_ids(r: &mut Rng, with_h: bool, mixed_alt: bool, numeric_ids: bool) -> CifDoc {
    let mut d = CifDoc { name: r.pick(&["1ABC", "test", "4HHB_x", "7"]).to_string(), ..Default::default() };
    if r.chance(1, 2) {
        let mut edge = |r: &mut Rng| if r.chance(1, 3) { r.range(100_000, 999_999) * 1000 } else { r.range(1000, 99_999) * 1000 };
        d.cell = Some([edge(r), edge(r), edge(r), 90_000_000, r.range(6000, 12_000) * 10_000, r.range(100, 35_999) * 10_000]);
    }
    if r.chance(1, 2) {
        let i = 1 + r.below(230);
        let s = Symmetry::from_index(i).unwrap();
        if r.chance(2, 3) && !s.herman_mauguin_symbol().contains('\'') { d.sg_hm = Some(s.herman_mauguin_symbol().to_string()); }
        if d.sg_hm.is_none() || r.chance(1, 2) { d.sg_num = Some(i); }
    }
    if r.chance(1, 3) { d.scale = Some(matrix(r)); }
    if r.chance(1, 3) { d.origx = Some(matrix(r)); }
    for i in 0..r.below(3) { d.ncs.push((i + 1 + r.below(2) * 5, matrix(r), r.chance(1, 2))); }
    for c in OPTIONAL { if r.chance(3, 4) { d.cols.push(c); } }
    let has = |d: &CifDoc, c: &str| d.cols.contains(&c);
    let names = ["N", "CA", "C", "O", "CB", "OG", "SG", "ZN", "X1"];
    let hnames = ["H", "HA", "HB2"];
    // ligand ids such as 017 or 1E5 are numbers to a CIF lexer
    let comps: Vec<&str> = if numeric_ids { vec!["ALA", "017", "1E5", "HOH", "0.50", "+7"] } else { vec!["ALA", "GLY", "SER", "HOH", "MG", "ala", "A1B"] };
    let chains = ["A", "B", "AA", "x", "1", "C-2", ";A"];  // ";A": a text field whose content starts with a semicolon
    let n_models = match r.below(4) { 0 => 2, 1 => 3, _ => 1 };
    let n_chains = 1 + r.below(3);
    let mut shape: Vec<CifRow> = Vec::new();
    let mut id = 0usize;
    for ci in 0..n_chains {
        let label = ((b'A' + ci as u8) as char).to_string();
        let auth = if r.chance(1, 10) { ";A".to_string() } else { chains[(ci * 2 + r.below(2)) % chains.len()].to_string() };
        let mut seq = r.range(-20, 200);
        for ri in 0..1 + r.below(4) {
            seq += 1 + if r.chance(1, 5) { r.range(1, 5) } else { 0 };
            let comp = r.pick(&comps).to_string();
            let ins = if r.chance(1, 8) { Some(r.pick(&["A", "B", "b"]).to_string()) } else { None };
            let altmode = if !has(&d, "label_alt_id") { 2 } else { r.below(6) };
            for ai in 0..1 + r.below(4) {
                let (nm, el) = if with_h && r.chance(1, 4) { (r.pick(&hnames).to_string(), "H".to_string()) } else {
                    let n = names[(ai + r.below(2)) % names.len()];
                    (n.to_string(), if n == "ZN" { "ZN".to_string() } else if n == "X1" { String::new() } else { n[..1].to_string() })
                };
                let alts: Vec<Option<String>> = match altmode { 0 if mixed_alt => if ai >= 1 { if seq % 2 == 0 { vec![Some("A".into()), Some("B".into())] } else { vec![Some("A".into())] } } else { vec![None] }, 0 | 1 => vec![Some("A".into()), Some("b".into())], _ => vec![None] };
                for alt in alts {
                    id += 1;
                    shape.push(CifRow {
                        group: if comp == "HOH" || comp == "MG" { "HETATM".into() } else { "ATOM".into() },
                        id: id.to_string(), element: el.clone(), name: nm.clone(), alt, comp: comp.clone(),
                        label_asym: label.clone(), auth_asym: Some(auth.clone()),
                        label_seq: if comp == "HOH" && has(&d, "auth_seq_id") && r.chance(1, 2) { None } else { Some(ri as i64 + 1) },
                        auth_seq: Some(seq), ins: ins.clone(),
                        x: r.range(-9_999_999, 9_999_999) * 1000, y: r.range(-999_999, 999_999) * 10, z: r.range(-99_999, 99_999) * 1000,
                        occ: r.range(0, 100) * 10_000, b: r.range(0, 99_999) * 1000,
                        charge: if r.chance(1, 8) { r.range(-3, 3) } else { 0 }, model: 1,
                        aniso: if r.chance(1, 5) { let mut t = [0i64; 9]; for v in t.iter_mut() { *v = r.range(-9999, 9999) * 100; } Some(t) } else { None },
                    });
                }
            }
        }
    }
    let model_numbers: Vec<usize> = (0..n_models).map(|k| k + 1 + if r.chance(1, 8) { 4 } else { 0 }).collect();
    for (k, mn) in model_numbers.iter().enumerate() {
        for row in &shape {
            let mut x = row.clone();
            x.model = if has(&d, "pdbx_PDB_model_num") { *mn } else { 1 };
            if k > 0 { if !has(&d, "pdbx_PDB_model_num") { break; } id += 1; x.id = id.to_string(); x.z += k as i64 * 1000; }
            d.rows.push(x);
        }
    }
    // an author column that is present need not carry a value on every row: some residues fall back to their label
    // number / label chain (whole residues, in every model alike)
    if r.chance(1, 4) {
        let keys: Vec<(String, Option<i64>)> = shape.iter().filter(|x| x.label_seq.is_some()).map(|x| (x.label_asym.clone(), x.label_seq)).collect();
        if !keys.is_empty() {
            for _ in 0..1 + r.below(2) {
                let k = r.pick(&keys).clone();
                let which = r.below(3);
                for x in d.rows.iter_mut().filter(|x| (x.label_asym.clone(), x.label_seq) == k) {
                    if which != 1 { x.auth_seq = None; }
                    if which == 1 { x.auth_asym = None; }
                }
            }
        }
    }
    // what an absent optional column means for the rows
    let cols = d.cols.clone();
    let has = |_: &CifDoc, c: &str| cols.contains(&c);
    let dd = CifDoc::default();
    let d_ref = &dd;
    for x in d.rows.iter_mut() {
        if !has(d_ref, "group_PDB") { x.group = "ATOM".into(); }
        if !has(d_ref, "label_alt_id") { x.alt = None; }
        if !has(d_ref, "auth_asym_id") { x.auth_asym = None; }
        if !has(d_ref, "auth_seq_id") { x.auth_seq = None; }
        if !has(d_ref, "pdbx_PDB_ins_code") { x.ins = None; }
        if !has(d_ref, "occupancy") { x.occ = 1_000_000; }
        if !has(d_ref, "B_iso_or_equiv") { x.b = 1_000_000; }
        if !has(d_ref, "pdbx_formal_charge") { x.charge = 0; }
        if !has(d_ref, "aniso") { x.aniso = None; }
    }
    d
}

fn dec(v: i64) -> String {
    // minimal decimal text of v * 1e-6
    let neg = v < 0;
    let a = v.unsigned_abs();
    let (ip, fp) = (a / 1_000_000, a % 1_000_000);
    let mut s = if fp == 0 { format!("{}", ip) } else { format!("{}.{:06}", ip, fp).trim_end_matches('0').to_string() };
    if neg { s.insert(0, '-'); }
    s
}

/// one of the legal spellings of the decimal `v * 1e-6`
pub fn num_tok(v: i64, r: &mut Rng, plain: bool) -> String {
    let base = dec(v);
    if plain { return base; }
    let (sign, mag) = if let Some(m) = base.strip_prefix('-') { ("-", m.to_string()) } else { ("", base.clone()) };
    match r.below(9) {
        0 => base,
        1 => if sign.is_empty() { format!("+{}", mag) } else { base },
        2 => if mag.contains('.') { format!("{}{}0", sign, mag) } else { format!("{}{}.0", sign, mag) },
        3 => if mag.contains('.') { format!("{}0{}", sign, mag) } else { format!("{}{}.", sign, mag) },
        4 => if let Some(f) = mag.strip_prefix("0.") { format!("{}.{}", sign, f) } else { base },
        5 => format!("{}{}e0", sign, mag),
        6 => format!("{}{}E+00", sign, mag),
        7 => {
            // shift the decimal point one place: d.ddd -> dd.dd e-1
            let (ip, fp) = mag.split_once('.').map_or((mag.as_str(), ""), |(a, b)| (a, b));
            if fp.is_empty() { format!("{}{}0e-1", sign, ip) } else { format!("{}{}{}.{}e-1", sign, ip, &fp[..1], &fp[1..]) }
        }
        _ => {
            let (ip, fp) = mag.split_once('.').map_or((mag.as_str(), ""), |(a, b)| (a, b));
            if ip.len() > 1 { format!("{}{}.{}{}E1", sign, &ip[..ip.len() - 1], &ip[ip.len() - 1..], fp) } else { format!("{}0.{}{}e+1", sign, ip, fp) }
        }
    }
}

/// spellings of an integer that the `f64` arithmetic of the lexer keeps exact
pub fn int_tok(v: i64, r: &mut Rng, plain: bool) -> String {
    if plain { return v.to_string(); }
    let (sign, mag) = if v < 0 { ("-", (-v).to_string()) } else { ("", v.to_string()) };
    match r.below(7) {
        0 | 1 => v.to_string(),
        2 => if v >= 0 { format!("+{}", mag) } else { v.to_string() },
        3 => format!("{}0{}", sign, mag),
        4 => format!("{}{}.", sign, mag),
        5 => format!("{}{}.0", sign, mag),
        _ => format!("{}{}e0", sign, mag),
    }
}

fn bare_ok(s: &str) -> bool {
    !s.is_empty() && s.chars().all(|c| c.is_ascii_graphic()) && !"#$'\"_[];".contains(s.chars().next().unwrap())
        && !["data_", "loop_", "save_", "stop_", "global_"].iter().any(|p| s.to_ascii_lowercase().starts_with(p)) && s != "." && s != "?"
}

/// one of the legal spellings of a text value
pub fn text_tok(s: &str, r: &mut Rng, plain: bool) -> String {
    if plain && bare_ok(s) { return s.to_string(); }
    let mut forms: Vec<String> = Vec::new();
    if bare_ok(s) { forms.push(s.to_string()); forms.push(s.to_string()); }
    if !s.contains('\'') && !s.contains('\n') { forms.push(format!("'{}'", s)); }
    if !s.contains('"') && !s.contains('\n') { forms.push(format!("\"{}\"", s)); }
    if !s.contains("\n;") { forms.push(format!("\n;{}\n;", s)); }
    if plain { return forms.iter().find(|f| f.starts_with('\'') || f.starts_with('"')).cloned().unwrap_or_else(|| forms[0].clone()); }
    forms[r.below(forms.len())].clone()
}

fn opt_text(s: &Option<String>, r: &mut Rng, plain: bool) -> String {
    match s { Some(t) => text_tok(t, r, plain), None => if plain || r.chance(1, 2) { ".".into() } else { "?".into() } }
}

/// white space / comments between two tokens
fn sep(r: &mut Rng, plain: bool, newline: bool) -> String {
    if plain { return if newline { "\n".into() } else { " ".into() }; }
    match r.below(10) {
        0 => "  ".into(), 1 => "\t".into(), 2 => "\n".into(), 3 => " # a comment ' \" ; loop_ _x\n".into(), 4 => "\r\n".into(), 5 => " \n\n ".into(),
        _ => if newline { "\n".into() } else { " ".into() },
    }
}

fn kw(s: &str, r: &mut Rng, plain: bool) -> String {
    if plain { return s.to_string(); }
    match r.below(4) { 0 => s.to_ascii_uppercase(), 1 => { let mut c: Vec<char> = s.chars().collect(); c[0] = c[0].to_ascii_uppercase(); c.into_iter().collect() } _ => s.to_string() }
}

/// foreign content the reader has to skip
fn foreign(r: &mut Rng) -> String {
    match r.below(7) {
        0 => "_entry.id   1ABC\n".into(),
        1 => "_struct.title\n;A text field with ' quotes \" and\n a _tag and loop_ inside\n;\n".into(),
        2 => "loop_\n_entity.id\n_entity.type\n_entity.details\n1 polymer ?\n2 water 'two words'\n".into(),
        3 => "save_frame1\n_item.name '_atom_site.Cartn_x'\nloop_ _a.b _a.c 1 2 3 4\nsave_\n".into(),
        4 => "_exptl.method 'X-RAY DIFFRACTION' # trailing comment\n".into(),
        5 => "loop_\n_atom_type.symbol\nC\nN\nO\n".into(),
        _ => "# only a comment\n".into(),
    }
}

fn matrix_items(prefix_m: &str, prefix_v: &str, m: &[[i64; 4]; 3], r: &mut Rng, plain: bool, out: &mut Vec<String>) {
    let mut items = Vec::new();
    for i in 0..3 { for j in 0..3 { items.push(format!("{}[{}][{}]{}{}", prefix_m, i + 1, j + 1, sep(r, plain, false), num_tok(m[i][j], r, plain))); } }
    for i in 0..3 { items.push(format!("{}[{}]{}{}", prefix_v, i + 1, sep(r, plain, false), num_tok(m[i][3], r, plain))); }
    if !plain { r.shuffle(&mut items); }
    out.extend(items);
}

/// the text of the document; `plain` = the canonical layout (fixed column order, one spelling, single blanks)
pub fn render(d: &CifDoc, r: &mut Rng, plain: bool) -> String {
    let mut blocks: Vec<String> = Vec::new();
    // metadata blocks (each a list of single items whose relative order matters only inside the NCS block)
    let mut singles: Vec<String> = Vec::new();
    if let Some(c) = &d.cell {
        let tags = ["length_a", "length_b", "length_c", "angle_alpha", "angle_beta", "angle_gamma"];
        for (t, v) in tags.iter().zip(c.iter()) { singles.push(format!("_cell.{}{}{}", t, sep(r, plain, false), num_tok(*v, r, plain))); }
    }
    if let Some(s) = &d.sg_hm { singles.push(format!("_symmetry.space_group_name_H-M{}{}", sep(r, plain, false), text_tok(s, r, plain))); }
    if let Some(n) = d.sg_num { singles.push(format!("_symmetry.Int_Tables_number{}{}", sep(r, plain, false), int_tok(n as i64, r, plain))); }
    if let Some(m) = &d.scale { matrix_items("_atom_sites.Cartn_transf_matrix", "_atom_sites.Cartn_transf_vector", m, r, plain, &mut singles); }
    if let Some(m) = &d.origx { matrix_items("_database_PDB_matrix.origx", "_database_PDB_matrix.origx_vector", m, r, plain, &mut singles); }
    // symmetry name before number keeps the "first one wins" rule out of the picture; everything else may move
    let sym_order: Vec<usize> = singles.iter().enumerate().filter(|(_, s)| s.starts_with("_symmetry")).map(|(i, _)| i).collect();
    if !plain && r.chance(1, 2) {
        // name and number state the same group, so their order is free as well
        r.shuffle(&mut singles);
    } else if !plain {
        let mut idx: Vec<usize> = (0..singles.len()).collect();
        r.shuffle(&mut idx);
        let mut sym_iter = sym_order.iter();
        let shuffled: Vec<String> = idx.iter().map(|&i| if singles[i].starts_with("_symmetry") { singles[*sym_iter.next().unwrap()].clone() } else { singles[i].clone() }).collect();
        singles = shuffled;
    }
    for s in singles { blocks.push(s + "\n"); }
    for (id, m, given) in &d.ncs {
        let mut b = format!("_struct_ncs_oper.id{}{}\n", sep(r, plain, false), int_tok(*id as i64, r, plain));
        let mut items = vec![format!("_struct_ncs_oper.code{}{}", sep(r, plain, false), text_tok(if *given { "given" } else { "generate" }, r, plain))];
        if !plain && r.chance(1, 2) { items.push("_struct_ncs_oper.details ?".into()); }
        matrix_items("_struct_ncs_oper.matrix", "_struct_ncs_oper.vector", m, r, plain, &mut items);
        if !plain { r.shuffle(&mut items); }
        for i in items { b.push_str(&i); b.push('\n'); }
        blocks.push(b);
    }
    // the atom_site loop
    let mut cols: Vec<String> = MANDATORY.iter().map(|c| c.to_string()).collect();
    cols.push("group_PDB".into());
    for c in &d.cols { if *c == "aniso" { for i in 1..=3 { for j in 1..=3 { cols.push(format!("aniso_U[{}][{}]", i, j)); } } } else if *c != "group_PDB" { cols.push(c.to_string()); } }
    if !plain {
        for f in ["label_entity_id", "foo_bar", "Cartn_x_esd"] { if r.chance(1, 3) { cols.push(f.to_string()); } }
        r.shuffle(&mut cols);
    }
    let mut l = kw("loop_", r, plain);
    l.push_str(&sep(r, plain, true));
    for c in &cols { l.push_str(&format!("_atom_site.{}{}", c, sep(r, plain, true))); }
    for (ri, row) in d.rows.iter().enumerate() {
        for (k, c) in cols.iter().enumerate() {
            let tok = match c.as_str() {
                c if d.replace.as_ref().map_or(false, |x| x.0 == ri && x.1 == c) => d.replace.as_ref().unwrap().2.clone(),
                "group_PDB" => if d.cols.contains(&"group_PDB") { text_tok(&row.group, r, plain) } else { ".".to_string() },
                "id" => text_tok(&row.id, r, plain),
                "type_symbol" => if row.element.is_empty() { "?".into() } else { text_tok(&row.element, r, plain) },
                "label_atom_id" => text_tok(&row.name, r, plain),
                "label_alt_id" => opt_text(&row.alt, r, plain),
                "label_comp_id" => text_tok(&row.comp, r, plain),
                "label_asym_id" => text_tok(&row.label_asym, r, plain),
                "auth_asym_id" => opt_text(&row.auth_asym, r, plain),
                "label_seq_id" => row.label_seq.map_or(".".to_string(), |v| int_tok(v, r, plain)),
                "auth_seq_id" => row.auth_seq.map_or("?".to_string(), |v| int_tok(v, r, plain)),
                "pdbx_PDB_ins_code" => opt_text(&row.ins, r, plain),
                "Cartn_x" => num_tok(row.x, r, plain),
                "Cartn_y" => num_tok(row.y, r, plain),
                "Cartn_z" => num_tok(row.z, r, plain),
                "occupancy" => num_tok(row.occ, r, plain),
                "B_iso_or_equiv" => num_tok(row.b, r, plain),
                "pdbx_formal_charge" => if row.charge == 0 && !plain && r.chance(1, 3) { "?".into() } else { int_tok(row.charge, r, plain) },
                "pdbx_PDB_model_num" => int_tok(row.model as i64, r, plain),
                a if a.starts_with("aniso_U") => { let i = (a.as_bytes()[8] - b'1') as usize; let j = (a.as_bytes()[11] - b'1') as usize; row.aniso.map_or(".".to_string(), |t| num_tok(t[3 * i + j], r, plain)) }
                _ => (*r.pick(&["1", "?", ".", "'x y'", "0.05"])).to_string(),
            };
            l.push_str(&tok);
            l.push_str(&if k + 1 == cols.len() { if tok.ends_with("\n;") { "\n".to_string() } else { sep(r, plain, true) } } else if tok.ends_with("\n;") { " ".to_string() } else { sep(r, plain, false) });
        }
    }
    if !l.ends_with('\n') { l.push('\n'); }
    // assemble: data_ header, then the blocks and the loop in a random order with foreign content between
    let loop_pos = if plain { blocks.len() } else { r.below(blocks.len() + 1) };
    blocks.insert(loop_pos, l);
    let mut out = String::new();
    if !plain && r.chance(1, 3) { out.push_str("# leading comment\n\n"); }
    out.push_str(&kw("data_", r, plain));
    out.push_str(&d.name);
    out.push('\n');
    for b in blocks {
        if !plain { for _ in 0..r.below(3) { out.push_str(&foreign(r)); } }
        out.push_str(&b);
        if !plain && r.chance(1, 3) { out.push_str("#\n"); }
    }
    if !plain { for _ in 0..r.below(2) { out.push_str(&foreign(r)); } if r.chance(1, 4) { out = out.trim_end().to_string(); } }
    out
}

fn tm(m: &[[i64; 4]; 3]) -> TransformationMatrix {
    let mut x = [[0.0f64; 4]; 3];
    for i in 0..3 { for j in 0..4 { x[i][j] = m[i][j] as f64 / 1e6; } }
    TransformationMatrix::from_matrix(x)
}

/// the structure the document states, built through the public API (rows in file order, author ids preferred)
pub fn expected(d: &CifDoc) -> Option<PDB> {
    let mut pdb = PDB::new();
    pdb.identifier = Some(d.name.clone());
    if let Some(c) = &d.cell { pdb.unit_cell = Some(UnitCell::new(c[0] as f64 / 1e6, c[1] as f64 / 1e6, c[2] as f64 / 1e6, c[3] as f64 / 1e6, c[4] as f64 / 1e6, c[5] as f64 / 1e6)); }
    if let Some(s) = &d.sg_hm { pdb.symmetry = Symmetry::new(s); } else if let Some(n) = d.sg_num { pdb.symmetry = Symmetry::from_index(n); }
    pdb.scale = d.scale.as_ref().map(tm);
    pdb.origx = d.origx.as_ref().map(tm);
    for (id, m, given) in &d.ncs { pdb.add_mtrix(MtriX::new(*id, tm(m), *given)); }
    let mut total_residues = 0usize;
    for row in &d.rows {
        if !pdb.models().any(|m| m.serial_number() == row.model) { pdb.add_model(Model::new(row.model)); }
        let fallback = total_residues as isize;
        let model = pdb.models_mut().find(|m| m.serial_number() == row.model)?;
        let serial = model.atom_count();
        let mut atom = Atom::new(row.group == "HETATM", serial, &row.id, &row.name, row.x as f64 / 1e6, row.y as f64 / 1e6, row.z as f64 / 1e6, row.occ as f64 / 1e6, row.b as f64 / 1e6, &row.element, row.charge as isize)?;
        if let Some(t) = &row.aniso { atom.set_anisotropic_temperature_factors([[t[0] as f64 / 1e6, t[1] as f64 / 1e6, t[2] as f64 / 1e6], [t[3] as f64 / 1e6, t[4] as f64 / 1e6, t[5] as f64 / 1e6], [t[6] as f64 / 1e6, t[7] as f64 / 1e6, t[8] as f64 / 1e6]]); }
        let chain = row.auth_asym.clone().unwrap_or_else(|| row.label_asym.clone());
        let num = row.auth_seq.or(row.label_seq).map_or(fallback, |v| v as isize);
        model.add_atom(atom, chain, (num, row.ins.as_deref()), (row.comp.as_str(), row.alt.as_deref()));
        total_residues = pdb.total_residue_count();
    }
    Some(pdb)
}

/// does some residue mix conformers with and without an alternative location (then the reader redistributes
/// the shared atoms, which the independent expectation does not reproduce)
pub fn has_mixed_alt(d: &CifDoc) -> bool {
    use std::collections::HashMap;
    let mut m: HashMap<(usize, String, i64, Option<String>), Vec<(String, Option<String>)>> = HashMap::new();
    for x in &d.rows {
        let e = m.entry((x.model, x.auth_asym.clone().unwrap_or_else(|| x.label_asym.clone()), x.auth_seq.or(x.label_seq).unwrap_or(0), x.ins.as_ref().map(|i| i.to_ascii_uppercase()))).or_default();
        let k = (x.comp.to_ascii_uppercase(), x.alt.as_ref().map(|a| a.to_ascii_uppercase()));
        if !e.contains(&k) { e.push(k); }
    }
    m.values().any(|v| v.len() > 1 && v.iter().any(|k| k.1.is_none()))
}
