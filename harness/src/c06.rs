//! C06 — reading mmCIF input is total: never panics, always classifies (fault enumeration, every outcome
//! compared with the Lean reader model).
use crate::cifdoc;
use crate::enc::*;
use crate::pdbio::*;
use crate::rng::Rng;
use crate::{budget, Exec};

/// a reference file touching every recognised category
pub fn exemplar() -> String {
    "data_1ABC\n#\n_entry.id 1ABC\n_cell.length_a 52.0\n_cell.length_b 58.6\n_cell.length_c 61.9\n_cell.angle_alpha 90\n_cell.angle_beta 101.5\n_cell.angle_gamma 90.00\n\
_symmetry.space_group_name_H-M 'P 1 21 1'\n_symmetry.Int_Tables_number 4\n_atom_sites.Cartn_transf_matrix[1][1] 0.019231\n_atom_sites.Cartn_transf_vector[2] 0.5\n\
_database_PDB_matrix.origx[2][3] 1.0\n_database_PDB_matrix.origx_vector[1] -0.25\n_struct_ncs_oper.id 1\n_struct_ncs_oper.code given\n_struct_ncs_oper.matrix[3][1] 0.5\n_struct_ncs_oper.vector[3] 12.5\n\
_struct.title\n;A text field\n with two lines\n;\nsave_frame\n_item.name x\nsave_\nloop_\n_atom_site.group_PDB\n_atom_site.id\n_atom_site.type_symbol\n_atom_site.label_atom_id\n_atom_site.label_alt_id\n_atom_site.label_comp_id\n\
_atom_site.label_asym_id\n_atom_site.label_seq_id\n_atom_site.pdbx_PDB_ins_code\n_atom_site.Cartn_x\n_atom_site.Cartn_y\n_atom_site.Cartn_z\n_atom_site.occupancy\n_atom_site.B_iso_or_equiv\n_atom_site.pdbx_formal_charge\n\
_atom_site.auth_seq_id\n_atom_site.auth_asym_id\n_atom_site.pdbx_PDB_model_num\n_atom_site.aniso_U[1][1]\n_atom_site.aniso_U[1][2]\n_atom_site.aniso_U[1][3]\n_atom_site.aniso_U[2][1]\n_atom_site.aniso_U[2][2]\n_atom_site.aniso_U[2][3]\n_atom_site.aniso_U[3][1]\n_atom_site.aniso_U[3][2]\n_atom_site.aniso_U[3][3]\n\
ATOM 1 N N . ALA A 1 ? 10.104 -6.134 12.345 1.00 23.45 ? 15 A 1 . . . . . . . . .\nATOM 2 C CA A ALA A 1 ? 11.104 -6.134 12.345 0.50 23.45 1 15 A 1 0.1 0.2 0.3 0.2 0.4 0.5 0.3 0.5 0.6\nHETATM 3 O O . HOH B . B -1.0 2e0 -3.5 1 5 -1 301 B 2 . . . . . . . . .\n#\n".to_string()
}

/// the token classes of the property
pub const TOKENS: &[&str] = &["loop_", "data_x", "save_", "save_f", "stop_", "global_", "'", "\"", ";", "\n;", ".", "?", "99999999999", "123456789012345678901234567890", "1e99999999999", "1(99999999999)", "-", "+", "1e", "1.5(", "\u{e9}t\u{e9}", "\u{2028}", "_", "_x", "#", "$", "[", "''", "'a b'", "\n;x\n;", "0", "-0", "1e400", "1e-400", "0e400", "nan", "inf", "\u{c}"];

/// split into tokens with the separators kept (token, following separator)
fn split_tokens(text: &str) -> Vec<(String, String)> {
    let mut out = Vec::new();
    let cs: Vec<char> = text.chars().collect();
    let mut i = 0;
    while i < cs.len() {
        let mut t = String::new();
        while i < cs.len() && !cs[i].is_ascii_whitespace() { t.push(cs[i]); i += 1; }
        let mut s = String::new();
        while i < cs.len() && cs[i].is_ascii_whitespace() { s.push(cs[i]); i += 1; }
        out.push((t, s));
    }
    out
}

pub fn gen(tier: &str, r: &mut Rng) -> Vec<String> {
    let mut out = Vec::new();
    let opts = Opts::all();
    let mut push = |out: &mut Vec<String>, r: &mut Rng, bytes: Vec<u8>, kind: &str| {
        if tier == "thorough" && kind != "multi" {
            for o in opts.iter().filter(|_| r.chance(1, 6)) { out.push(format!("c06 {} {} {} {}", kind, o.level_name(), o.flags(), enc_bytes(&bytes))); }
        }
        let o = opts[r.below(opts.len())];
        out.push(format!("c06 {} {} {} {}", kind, o.level_name(), o.flags(), enc_bytes(&bytes)));
    };
    let ex = exemplar();
    let cs: Vec<char> = ex.chars().collect();
    // every prefix of the reference file (and of one generated file)
    for k in 0..=cs.len() { if tier == "thorough" || k % 3 == 0 || k + 200 > cs.len() { push(&mut out, r, cs[..k].iter().collect::<String>().into_bytes(), "prefix"); } }
    let g = cifdoc::render(&cifdoc::gen_doc(r, true, true), r, false);
    let gc: Vec<char> = g.chars().collect();
    for k in 0..=gc.len() { if tier == "thorough" || r.chance(1, 6) { push(&mut out, r, gc[..k].iter().collect::<String>().into_bytes(), "prefix"); } }
    // every single-token replacement by each token class
    let toks = split_tokens(&ex);
    for i in 0..toks.len() {
        for t in TOKENS {
            if tier != "thorough" && !r.chance(1, 4) { continue; }
            let mut s = String::new();
            for (j, (a, b)) in toks.iter().enumerate() { s.push_str(if i == j { t } else { a }); s.push_str(b); }
            push(&mut out, r, s.into_bytes(), "token");
        }
        if tier == "thorough" || r.chance(1, 2) {
            let mut s = String::new();
            for (j, (a, b)) in toks.iter().enumerate() { if i != j { s.push_str(a); s.push_str(b); } }
            push(&mut out, r, s.into_bytes(), "delete");
        }
    }
    // every cell of the atom_site rows x a fixed set of odd values (always, in both tiers): empty and blank quoted
    // strings, quoted non-ASCII, missing values, non-numbers, out-of-range and non-integral numbers
    if let Some(first_cell) = toks.iter().rposition(|(a, _)| a.starts_with("_atom_site.")).map(|i| i + 1) {
        for i in first_cell..toks.len() {
            if toks[i].0 == "#" { break; }
            for t in ["''", "' '", "'\u{e9}'", "\"\u{e9} \"", "?", ".", "1e400", "abc", "-1", "1.5", "'A'", "0"] {
                let mut s = String::new();
                for (j, (a, b)) in toks.iter().enumerate() { s.push_str(if i == j { t } else { a }); s.push_str(b); }
                push(&mut out, r, s.into_bytes(), "cell");
            }
        }
    }
    // structural faults
    for f in ["", "data_", "data_x", "data_x loop_", "data_x\nloop_\n", "data_x\nloop_\n1 2 3", "data_x loop_ _a", "data_x loop_ _a _b 1 2 3", "data_x _a", "data_x _a 'unterminated", "data_x _a \"x\ny\"",
        "data_x _a\n;never closed\n", "data_x save_f _a 1", "data_x save_f _a 1 save_", "data_x save_f loop_ _a 1 2 save_", "data_x save_", "x", "#only a comment", "data_x data_y _a 1", "data_x _a 1 data_y",
        "data_x stop_", "data_x global_", "data_x _a loop_", "data_x _a _b", "data_x _a ;x", "data_x\n_a\n;\n;\n", "data_x _a $x", "data_x _a [1]", "data_x _a\u{c}1", "data_x\u{c}_a 1", "\u{feff}data_x _a 1",
        "data_x _cell.length_a ?", "data_x _cell.length_a .", "data_x _cell.length_a abc", "data_x _cell.angle_alpha 400", "data_x _cell.angle_beta -1", "data_x _cell.length_a 1e400", "data_x _cell.length_a 0e400",
        "data_x _symmetry.Int_Tables_number 0", "data_x _symmetry.Int_Tables_number 231", "data_x _symmetry.Int_Tables_number -1", "data_x _symmetry.Int_Tables_number 1.5", "data_x _symmetry.Int_Tables_number ?",
        "data_x _symmetry.space_group_name_H-M ?", "data_x _symmetry.space_group_name_H-M 'no such group'", "data_x _symmetry.space_group_name_H-M 'P 1' _symmetry.Int_Tables_number 2", "data_x _symmetry.Int_Tables_number 2 _symmetry.space_group_name_H-M 'P 1'", "data_x _symmetry.Int_Tables_number 1 _symmetry.space_group_name_H-M 'P 1'",
        "data_x _symmetry.space_group_name_H-M 'P 1' _space_group.name_H-M_alt 'P 1'", "data_x _symmetry.space_group_name_H-M 'P 1' _space_group.name_H-M_alt 'P -1'", "data_x _space_group.name_Hall 'P 1' _symmetry.space_group_name_Hall '-P 1'", "data_x _space_group.name_Hall 'P 1' _symmetry.space_group_name_H-M ?",
        "data_x _space_group.IT_number 19 _symmetry.Int_Tables_number 19", "data_x _space_group.IT_number 19 _symmetry.Int_Tables_number 18", "data_x _space_group.IT_number 19 _space_group.name_Hall ?",
        "data_x _atom_sites.Cartn_transf_matrix[5][1] 1", "data_x _atom_sites.Cartn_transf_matrix[0][1] 1", "data_x _atom_sites.Cartn_transf_matrix[1][4] 1", "data_x _atom_sites.Cartn_transf_vector[4] 1", "data_x _atom_sites.Cartn_transf 1",
        "data_x _atom_sites.Cartn_transf_matrix[1][1] x", "data_x _atom_sites.Cartn_transf_matrix[a][b] 1", "data_x _database_PDB_matrix.origx 1", "data_x _database_PDB_matrix.origx[1] ?", "data_x _atom_sites.Cartn_transf[ 1",
        "data_x _struct_ncs_oper.matrix[1][1] 1", "data_x _struct_ncs_oper.id ?", "data_x _struct_ncs_oper.id x", "data_x _struct_ncs_oper.id 1 _struct_ncs_oper.code maybe", "data_x _struct_ncs_oper.id 1 _struct_ncs_oper.code ?",
        "data_x _struct_ncs_oper.id 1 _struct_ncs_oper.id 1 _struct_ncs_oper.matrix[1][1] 2", "data_x _struct_ncs_oper.id 1 _struct_ncs_oper.matrix[9][9] 2", "data_x _struct_ncs_oper.id 1 _struct_ncs_oper.details x _struct_ncs_oper.foo 1",
        "data_x loop_ _atom_site.group_PDB ATOM", "data_x loop_ _atom_site.group_PDB _atom_site.id ATOM 1"] {
        for _ in 0..3 { push(&mut out, r, f.as_bytes().to_vec(), "structure"); }
        // the same faults with non-ASCII characters inside or next to the words of the line that is reported (a
        // position counted in characters must not be used to cut bytes)
        let words = split_tokens(f);
        for i in 0..words.len() {
            for (pre, post) in [("", "\u{e9}"), ("", "\u{e9}t\u{e9}\u{20ac}"), ("", "\u{3b1}\u{1f600}x")] {
                if words[i].0.is_empty() { continue; }
                let mut s2 = String::new();
                for (j, (a, b)) in words.iter().enumerate() { if i == j { s2.push_str(pre); s2.push_str(a); s2.push_str(post); } else { s2.push_str(a); } s2.push_str(b); }
                push(&mut out, r, s2.into_bytes(), "structure-non-ascii");
            }
        }
    }
    // an atom_site loop cut short after a non-ASCII word, and loops whose value count does not fit the header
    for tail in ["C\u{3b1}", "\u{e9}", "X\u{fc}", "'\u{e9}'", "\u{e9} \u{e9}"] {
        for head in ["data_x loop_ _a.x _a.y 1 2 ", "data_x\nloop_\n_atom_site.id\n_atom_site.label_atom_id\n1 ", "data_\u{e9} loop_ _a.x _a.y _a.z \u{e9} 2 3 ", "data_x save_caf\u{e9} _a ", "data_x _entry.identit\u{e9} ", "data_x _entry.\u{e9}\u{e9} $x "] {
            push(&mut out, r, format!("{}{}", head, tail).into_bytes(), "structure-non-ascii");
            push(&mut out, r, format!("{}{}\n", head, tail).into_bytes(), "structure-non-ascii");
            push(&mut out, r, head.trim_end().as_bytes().to_vec(), "structure-non-ascii");
        }
    }
    // every unit-cell item x odd values (range ends of the angles, negatives, non-numbers, overflow), alone and
    // inside an otherwise complete cell
    let cell_tags = ["length_a", "length_b", "length_c", "angle_alpha", "angle_beta", "angle_gamma"];
    for (k, tag) in cell_tags.iter().enumerate() {
        for v in ["400", "360", "360.0", "359.999", "-1", "-90.0", "0", "0.0", "-0.0", "1e400", "-1e400", "1e-400", "abc", "?", ".", "'90'", "90(5)", "1e3", "nan", "inf"] {
            push(&mut out, r, format!("data_x _cell.{} {}", tag, v).into_bytes(), "unit-cell");
            let mut s = String::from("data_x\n");
            for (j, t) in cell_tags.iter().enumerate() { s.push_str(&format!("_cell.{} {}\n", t, if j == k { v } else if j < 3 { "10.5" } else { "90" })); }
            s.push_str("_symmetry.space_group_name_H-M 'P 1'\n");
            push(&mut out, r, s.into_bytes(), "unit-cell");
        }
    }
    // multi-fault mutations of generated documents
    let n = budget(tier, 1200, 60_000);
    for _ in 0..n {
        let d = cifdoc::gen_doc(r, true, true);
        let plain = r.chance(1, 3);
        let text = cifdoc::render(&d, r, plain);
        let mut toks = split_tokens(&text);
        for _ in 0..1 + r.below(4) {
            if toks.is_empty() { break; }
            let i = r.below(toks.len());
            match r.below(8) {
                0 => { toks.remove(i); }
                1 => { let t = toks[i].clone(); toks.insert(i, t); }
                2 => { let j = r.below(toks.len()); toks.swap(i, j); }
                3 | 4 => { toks[i].0 = r.pick(TOKENS).to_string(); }
                5 => { let mut cs: Vec<char> = toks[i].0.chars().collect(); if !cs.is_empty() { let k = r.below(cs.len()); cs[k] = *r.pick(&['\'', '"', ';', '#', '_', '.', '?', '\u{e9}', '\u{0}', '(', ')', 'e', '-']); } toks[i].0 = cs.into_iter().collect(); }
                6 => { toks[i].1 = r.pick(&["", " ", "\n", "\r", "\r\n", "\n\r", "\t", "\u{c}", " # c\n"]).to_string(); }
                _ => { toks.truncate(i); }
            }
        }
        let mut bytes: Vec<u8> = toks.iter().map(|(a, b)| format!("{}{}", a, b)).collect::<String>().into_bytes();
        if r.chance(1, 15) && !bytes.is_empty() { let k = r.below(bytes.len()); bytes[k] = *r.pick(&[0xffu8, 0xc3, 0x80, 0xe2]); }
        push(&mut out, r, bytes, "multi");
    }
    out
}

pub fn exec(case: &str) -> Exec { crate::c05::exec_fmt(case, "c06", "mmcif") }
