//! Canonical outcome of a read through the real library (same text as PdbModel/DriverPdb.lean prints).
use crate::enc::*;
use crate::guarded;
use crate::st::*;
use pdbtbx::*;
use std::io::BufReader;

#[derive(Clone, Copy, Debug)]
pub struct Opts {
    pub level: StrictnessLevel,
    pub discard_h: bool,
    pub first_only: bool,
    pub atomic_only: bool,
}
impl Opts {
    pub fn flags(&self) -> String { format!("{}{}{}", b(self.discard_h), b(self.first_only), b(self.atomic_only)) }
    pub fn level_name(&self) -> &'static str { crate::c07::level_name(self.level) }
    pub fn parse(level: &str, flags: &str) -> Opts {
        let f: Vec<char> = flags.chars().collect();
        Opts { level: crate::c07::parse_level(level).unwrap(), discard_h: f[0] == '1', first_only: f[1] == '1', atomic_only: f[2] == '1' }
    }
    pub fn all() -> Vec<Opts> {
        let mut v = Vec::new();
        for level in crate::c07::LEVELS { for i in 0..8 { v.push(Opts { level, discard_h: i & 1 != 0, first_only: i & 2 != 0, atomic_only: i & 4 != 0 }); } }
        v
    }
}

pub enum Read {
    Ok(PDB, Vec<PDBError>),
    Err(Vec<PDBError>),
    Panic(String),
}

pub fn read(fmt: &str, o: &Opts, bytes: &[u8]) -> Read {
    let format = if fmt == "pdb" { Format::Pdb } else { Format::Mmcif };
    match guarded(|| {
        ReadOptions::default().set_format(format).set_level(o.level).set_discard_hydrogens(o.discard_h)
            .set_only_first_model(o.first_only).set_only_atomic_coords(o.atomic_only).read_raw(BufReader::new(bytes))
    }) {
        Err(m) => Read::Panic(m),
        Ok(Ok((p, d))) => Read::Ok(p, d),
        Ok(Err(d)) => Read::Err(d),
    }
}

/// line numbers and texts a context quotes
pub fn quoted(c: &Context, out: &mut Vec<(usize, String)>) {
    match c {
        Context::FullLine { linenumber, line } | Context::Line { linenumber, line, .. } => out.push((*linenumber, line.clone())),
        Context::RangeHighlights { start_linenumber, lines, .. } => for (i, l) in lines.iter().enumerate() { out.push((start_linenumber + 1 + i, l.clone())); },
        Context::Range { start_linenumber, lines, .. } => for (i, l) in lines.iter().enumerate() { out.push((start_linenumber + i, l.clone())); },
        Context::Multiple { contexts } => for (_, c) in contexts { quoted(c, out); },
        _ => {}
    }
}

pub fn diag_tok(d: &PDBError) -> String {
    let mut q = Vec::new();
    quoted(d.context(), &mut q);
    let nums = if q.is_empty() { String::new() } else { format!("@{}", q.iter().map(|x| x.0.to_string()).collect::<Vec<_>>().join("+")) };
    format!("{}:{}{}", d.level().descriptor(), d.short_description().replace(' ', "_"), nums)
}
pub fn diags_tok(ds: &[PDBError]) -> String {
    if ds.is_empty() { return "-".into(); }
    let mut v: Vec<String> = ds.iter().map(diag_tok).collect();
    v.sort();
    v.join(" ")
}

/// exact value in micro-units or None
fn micro(v: f64) -> Option<i64> {
    let s = v * 1e6;
    if !s.is_finite() || s.abs() > 9e15 { return None; }
    let k = s.round();
    if (s - k).abs() < 1e-4 * (1.0 + s.abs() * 1e-9) { Some(k as i64) } else { None }
}
fn flts(v: &[f64]) -> Option<String> {
    let mut out = Vec::new();
    for x in v { out.push(micro(*x)?.to_string()); }
    Some(out.join(","))
}
fn mat12(t: &TransformationMatrix) -> Option<String> {
    let m = t.matrix();
    flts(&[m[0][0], m[0][1], m[0][2], m[0][3], m[1][0], m[1][1], m[1][2], m[1][3], m[2][0], m[2][1], m[2][2], m[2][3]])
}
fn pos_tok(p: &SequencePosition) -> String {
    format!("{} {} {} {}", p.start, enc_opt(p.start_insert.as_deref()), p.end, enc_opt(p.end_insert.as_deref()))
}

pub fn atoms_exact(p: &PDB) -> bool {
    p.atoms().all(|a| micro(a.x()).is_some() && micro(a.y()).is_some() && micro(a.z()).is_some() && micro(a.occupancy()).is_some() && micro(a.b_factor()).is_some()
        && a.anisotropic_temperature_factors().map_or(true, |m| m.iter().flatten().all(|v| micro(*v).is_some())))
}

/// the `X …` metadata tokens; None when a value is not an exact multiple of 1e-6
pub fn meta_toks(p: &PDB) -> Option<Vec<String>> {
    let mut o = vec!["X".to_string(), format!("id={}", enc_opt(p.identifier.as_deref())), format!("rem={}", p.remark_count())];
    for (n, t) in p.remarks() { o.push(n.to_string()); o.push(enc_str(t)); }
    o.push(format!("cell={}", match &p.unit_cell { None => "~".to_string(), Some(c) => flts(&[c.a(), c.b(), c.c(), c.alpha(), c.beta(), c.gamma()])? }));
    o.push(format!("sg={}", p.symmetry.as_ref().map_or("~".to_string(), |s| s.index().to_string())));
    o.push(format!("scale={}", match &p.scale { None => "~".to_string(), Some(m) => mat12(m)? }));
    o.push(format!("origx={}", match &p.origx { None => "~".to_string(), Some(m) => mat12(m)? }));
    o.push(format!("mtrix={}", p.mtrix().count()));
    for m in p.mtrix() { o.push(format!("{} {} {}", m.serial_number, b(m.contained), mat12(&m.transformation)?)); }
    let dbs: Vec<(usize, &DatabaseReference)> = p.chains().enumerate().filter_map(|(i, c)| c.database_reference().map(|d| (i, d))).collect();
    o.push(format!("db={}", dbs.len()));
    for (gi, d) in dbs {
        let diffs: Vec<String> = d.differences.iter().map(|x| format!("{} {} {} {} {}", enc_str(&x.residue.0), x.residue.1, enc_opt(x.residue.2.as_deref()),
            x.database_residue.as_ref().map_or("~".to_string(), |(n, k)| format!("{}/{}", enc_str(n), k)), enc_str(&x.comment))).collect();
        o.push(format!("{} {} {} {} {} {} {} {}", gi, enc_str(&d.database.name), enc_str(&d.database.acc), enc_str(&d.database.id), pos_tok(&d.pdb_position), pos_tok(&d.database_position), diffs.len(), diffs.join(" ")).trim_end().to_string() + if diffs.is_empty() { " " } else { "" });
    }
    let atoms: Vec<&Atom> = p.atoms().collect();
    let bonds: Vec<String> = p.bonds().map(|(a, b2, _)| format!("{}:{}", atoms.iter().position(|x| std::ptr::eq(*x, a)).unwrap(), atoms.iter().position(|x| std::ptr::eq(*x, b2)).unwrap())).collect();
    o.push(format!("bonds={}", bonds.len()));
    o.extend(bonds);
    Some(o)
}

/// the mmCIF model does not follow positions: diagnostics are compared without line numbers
pub fn strip_lines(tok: &str) -> String {
    let (head, diags) = match tok.rfind(" | ") { Some(i) if tok.starts_with("OK ") => (&tok[..i + 3], &tok[i + 3..]), _ if tok.starts_with("ERR ") => ("ERR ", &tok[4..]), _ => return tok.to_string() };
    let mut v: Vec<String> = diags.split(' ').map(|d| d.split('@').next().unwrap_or("").to_string()).collect();
    v.sort();
    format!("{}{}", head, v.join(" "))
}

pub fn outcome_tok(r: &Read) -> String {
    match r {
        Read::Panic(_) => "PANIC".into(),
        Read::Err(d) => format!("ERR {}", diags_tok(d)),
        Read::Ok(p, d) => {
            let body = if atoms_exact(p) { meta_toks(p).map(|m| format!("{} {}", m.join(" "), dump(p))) } else { None };
            // normalise runs of blanks produced by empty lists
            let body = body.map(|b2| b2.split(' ').filter(|t| !t.is_empty()).collect::<Vec<_>>().join(" "));
            format!("OK {} | {}", body.unwrap_or_else(|| "INEXACT".into()), diags_tok(d))
        }
    }
}
