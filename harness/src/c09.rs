//! C09 — all ways of walking a structure agree (counts, iterators, indices, tuples, par).
use crate::rng::Rng;
use crate::st::*;
use crate::{budget, guarded, Exec, Failure};
use pdbtbx::*;
use rayon::prelude::*;
use std::sync::OnceLock;

pub const POOL_SIZES: [usize; 5] = [1, 2, 3, 8, 16];
pub fn pools() -> &'static Vec<rayon::ThreadPool> {
    static P: OnceLock<Vec<rayon::ThreadPool>> = OnceLock::new();
    P.get_or_init(|| POOL_SIZES.iter().map(|n| rayon::ThreadPoolBuilder::new().num_threads(*n).build().expect("pool")).collect())
}

/// unique tags on every level so that elements can be told apart without pointer games
pub fn retag(s: &mut SPdb) {
    let (mut nm, mut nc, mut nr, mut nf, mut na) = (0, 0, 0, 0, 0);
    for m in s.models.iter_mut() {
        nm += 1;
        m.serial = nm;
        for c in m.chains.iter_mut() {
            nc += 1;
            c.id = format!("C{nc}");
            for r in c.residues.iter_mut() {
                nr += 1;
                r.serial = nr;
                for f in r.confs.iter_mut() {
                    nf += 1;
                    f.name = format!("F{nf}");
                    for a in f.atoms.iter_mut() {
                        na += 1;
                        a.id = format!("{na}");
                    }
                }
            }
        }
    }
}

pub fn gen(tier: &str, r: &mut Rng) -> Vec<String> {
    let mut out = Vec::new();
    // hand-picked ragged shapes first
    for shape in ["P 0", "P 1 M 1 0", "P 2 M 1 0 M 2 1 C s41 0", "P 1 M 1 1 C s41 1 R 1 ~ 0", "P 1 M 1 1 C s41 1 R 1 ~ 1 F s46 ~ ~ 0"] {
        out.push(format!("c09 walk {shape}"));
    }
    let n = budget(tier, 150, 5000);
    for i in 0..n {
        let o = GenOpts { max_models: 4, max_chains: 4, max_res: 4, max_conf: 3, max_atoms: if i % 10 == 0 { 12 } else { 4 }, aniso: false, ..GenOpts::default() };
        let mut s = gen_pdb(r, &o);
        retag(&mut s);
        let (_, back) = realise(&s);
        out.push(format!("c09 walk {}", back.line()));
    }
    out
}

fn lst(name: &str, items: &[String]) -> String {
    format!("{}={}", name, if items.is_empty() { "-".to_string() } else { items.join(",") })
}
fn idx(name: &str, n: usize, f: impl Fn(usize) -> Option<String>) -> String {
    let items: Vec<String> = (0..=n).map(|i| f(i).unwrap_or_else(|| "~".to_string())).collect();
    lst(name, &items)
}
fn nums(v: &[usize]) -> String {
    format!("n={}", v.iter().map(|x| x.to_string()).collect::<Vec<_>>().join(","))
}
fn ta(a: &Atom) -> String { a.id().to_string() }
fn tf(c: &Conformer) -> String { c.name().to_string() }
fn tr(r: &Residue) -> String { r.serial_number().to_string() }
fn tc(c: &Chain) -> String { c.id().to_string() }
fn tm(m: &Model) -> String { m.serial_number().to_string() }

struct Chk {
    fails: Vec<Failure>,
    accessors: usize,
}
impl Chk {
    fn eq<T: PartialEq + std::fmt::Debug>(&mut self, what: &str, a: T, b: T) {
        self.accessors += 1;
        if a != b {
            self.fails.push(Failure::new("walk-disagreement", format!("{what}: {:?} vs {:?}", a, b)).feat("accessor", what));
        }
    }
    fn same_set(&mut self, what: &str, mut a: Vec<String>, mut b: Vec<String>) {
        a.sort();
        b.sort();
        self.eq(what, a, b);
    }
}

fn walk_conformer(f: &Conformer, o: &mut Vec<String>, k: &mut Chk) {
    let atoms: Vec<String> = f.atoms().map(ta).collect();
    o.push(format!("f:{}", tf(f)));
    o.push(nums(&[f.atom_count()]));
    o.push(lst("A", &atoms));
    o.push(lst("rA", &f.atoms().rev().map(ta).collect::<Vec<_>>()));
    o.push(idx("iA", atoms.len(), |i| f.atom(i).map(ta)));
    k.eq("Conformer::atom_count", f.atom_count(), atoms.len());
    for p in pools() {
        k.same_set("Conformer::par_atoms", p.install(|| f.par_atoms().map(ta).collect()), atoms.clone());
    }
}

fn walk_residue(r: &Residue, o: &mut Vec<String>, k: &mut Chk) {
    let confs: Vec<String> = r.conformers().map(tf).collect();
    let atoms: Vec<String> = r.atoms().map(ta).collect();
    let nested: Vec<String> = r.conformers().flat_map(|f| f.atoms().map(ta)).collect();
    let h: Vec<String> = r.atoms_with_hierarchy().map(|h| format!("{}/{}", ta(h.atom()), tf(h.conformer()))).collect();
    o.push(format!("r:{}", tr(r)));
    o.push(nums(&[r.conformer_count(), r.atom_count()]));
    o.push(lst("F", &confs));
    o.push(lst("A", &atoms));
    o.push(lst("H", &h));
    o.push(idx("iF", confs.len(), |i| r.conformer(i).map(tf)));
    o.push(idx("iA", atoms.len(), |i| r.atom(i).map(ta)));
    k.eq("Residue::conformer_count", r.conformer_count(), confs.len());
    k.eq("Residue::atom_count", r.atom_count(), atoms.len());
    k.eq("Residue::atoms flat=nested", atoms.clone(), nested);
    for hh in r.atoms_with_hierarchy() {
        k.eq("Residue::atoms_with_hierarchy ancestors", hh.conformer().atoms().any(|a| std::ptr::eq(a, hh.atom())) && r.conformers().any(|c| std::ptr::eq(c, hh.conformer())), true);
    }
    for p in pools() {
        k.eq("Residue::par_atom_count", p.install(|| r.par_atom_count()), atoms.len());
        k.same_set("Residue::par_atoms", p.install(|| r.par_atoms().map(ta).collect()), atoms.clone());
        k.same_set("Residue::par_conformers", p.install(|| r.par_conformers().map(tf).collect()), confs.clone());
    }
    for f in r.conformers() {
        walk_conformer(f, o, k);
    }
}

fn walk_chain(c: &Chain, o: &mut Vec<String>, k: &mut Chk) {
    let res: Vec<String> = c.residues().map(tr).collect();
    let confs: Vec<String> = c.conformers().map(tf).collect();
    let atoms: Vec<String> = c.atoms().map(ta).collect();
    let h: Vec<String> = c.atoms_with_hierarchy().map(|h| format!("{}/{}/{}", ta(h.atom()), tf(h.conformer()), tr(h.residue()))).collect();
    o.push(format!("c:{}", tc(c)));
    o.push(nums(&[c.residue_count(), c.conformer_count(), c.atom_count()]));
    o.push(lst("R", &res));
    o.push(lst("F", &confs));
    o.push(lst("A", &atoms));
    o.push(lst("H", &h));
    o.push(idx("iR", res.len(), |i| c.residue(i).map(tr)));
    o.push(idx("iF", confs.len(), |i| c.conformer(i).map(tf)));
    o.push(idx("iA", atoms.len(), |i| c.atom(i).map(ta)));
    k.eq("Chain::residue_count", c.residue_count(), res.len());
    k.eq("Chain::conformer_count", c.conformer_count(), confs.len());
    k.eq("Chain::atom_count", c.atom_count(), atoms.len());
    k.eq("Chain::conformers flat=nested", confs.clone(), c.residues().flat_map(|r| r.conformers().map(tf)).collect());
    k.eq("Chain::atoms flat=nested", atoms.clone(), c.residues().flat_map(|r| r.conformers().flat_map(|f| f.atoms().map(ta))).collect());
    k.eq("Chain::atoms rev", c.atoms().rev().map(ta).collect::<Vec<_>>(), atoms.iter().rev().cloned().collect::<Vec<_>>());
    for hh in c.atoms_with_hierarchy() {
        k.eq("Chain::atoms_with_hierarchy ancestors",
            hh.conformer().atoms().any(|a| std::ptr::eq(a, hh.atom())) && hh.residue().conformers().any(|f| std::ptr::eq(f, hh.conformer())) && c.residues().any(|r| std::ptr::eq(r, hh.residue())), true);
    }
    for p in pools() {
        k.eq("Chain::par_conformer_count", p.install(|| c.par_conformer_count()), confs.len());
        k.eq("Chain::par_atom_count", p.install(|| c.par_atom_count()), atoms.len());
        k.same_set("Chain::par_residues", p.install(|| c.par_residues().map(tr).collect()), res.clone());
        k.same_set("Chain::par_conformers", p.install(|| c.par_conformers().map(tf).collect()), confs.clone());
        k.same_set("Chain::par_atoms", p.install(|| c.par_atoms().map(ta).collect()), atoms.clone());
    }
    for r in c.residues() {
        walk_residue(r, o, k);
    }
}

fn walk_model(m: &Model, o: &mut Vec<String>, k: &mut Chk) {
    let chains: Vec<String> = m.chains().map(tc).collect();
    let res: Vec<String> = m.residues().map(tr).collect();
    let confs: Vec<String> = m.conformers().map(tf).collect();
    let atoms: Vec<String> = m.atoms().map(ta).collect();
    let h: Vec<String> = m.atoms_with_hierarchy().map(|h| format!("{}/{}/{}/{}", ta(h.atom()), tf(h.conformer()), tr(h.residue()), tc(h.chain()))).collect();
    o.push(format!("m:{}", tm(m)));
    o.push(nums(&[m.chain_count(), m.residue_count(), m.conformer_count(), m.atom_count()]));
    o.push(lst("C", &chains));
    o.push(lst("R", &res));
    o.push(lst("F", &confs));
    o.push(lst("A", &atoms));
    o.push(lst("H", &h));
    o.push(idx("iC", chains.len(), |i| m.chain(i).map(tc)));
    o.push(idx("iR", res.len(), |i| m.residue(i).map(tr)));
    o.push(idx("iF", confs.len(), |i| m.conformer(i).map(tf)));
    o.push(idx("iA", atoms.len(), |i| m.atom(i).map(ta)));
    k.eq("Model::chain_count", m.chain_count(), chains.len());
    k.eq("Model::residue_count", m.residue_count(), res.len());
    k.eq("Model::conformer_count", m.conformer_count(), confs.len());
    k.eq("Model::atom_count", m.atom_count(), atoms.len());
    k.eq("Model::residues flat=nested", res.clone(), m.chains().flat_map(|c| c.residues().map(tr)).collect());
    k.eq("Model::conformers flat=nested", confs.clone(), m.chains().flat_map(|c| c.residues().flat_map(|r| r.conformers().map(tf))).collect());
    k.eq("Model::atoms flat=nested", atoms.clone(), m.chains().flat_map(|c| c.residues().flat_map(|r| r.conformers().flat_map(|f| f.atoms().map(ta)))).collect());
    k.eq("Model::chains rev", m.chains().rev().map(tc).collect::<Vec<_>>(), chains.iter().rev().cloned().collect::<Vec<_>>());
    k.eq("Model::atoms rev", m.atoms().rev().map(ta).collect::<Vec<_>>(), atoms.iter().rev().cloned().collect::<Vec<_>>());
    for hh in m.atoms_with_hierarchy() {
        k.eq("Model::atoms_with_hierarchy ancestors",
            hh.conformer().atoms().any(|a| std::ptr::eq(a, hh.atom())) && hh.residue().conformers().any(|f| std::ptr::eq(f, hh.conformer()))
                && hh.chain().residues().any(|r| std::ptr::eq(r, hh.residue())) && m.chains().any(|c| std::ptr::eq(c, hh.chain())), true);
    }
    for p in pools() {
        k.eq("Model::par_residue_count", p.install(|| m.par_residue_count()), res.len());
        k.eq("Model::par_conformer_count", p.install(|| m.par_conformer_count()), confs.len());
        k.eq("Model::par_atom_count", p.install(|| m.par_atom_count()), atoms.len());
        k.same_set("Model::par_chains", p.install(|| m.par_chains().map(tc).collect()), chains.clone());
        k.same_set("Model::par_residues", p.install(|| m.par_residues().map(tr).collect()), res.clone());
        k.same_set("Model::par_conformers", p.install(|| m.par_conformers().map(tf).collect()), confs.clone());
        k.same_set("Model::par_atoms", p.install(|| m.par_atoms().map(ta).collect()), atoms.clone());
    }
    for c in m.chains() {
        walk_chain(c, o, k);
    }
}

/// mutable traversals: visit exactly the same elements exactly once (tag through `&mut`, read back)
fn check_mut(pdb: &mut PDB, k: &mut Chk) {
    let base: Vec<(String, isize)> = pdb.atoms().map(|a| (ta(a), a.charge())).collect();
    let bump = |v: &Vec<(String, isize)>| -> Vec<(String, isize)> { v.iter().map(|(i, c)| (i.clone(), c + 1)).collect() };
    let read = |p: &PDB| -> Vec<(String, isize)> { p.atoms().map(|a| (ta(a), a.charge())).collect() };
    let mut expect = base.clone();
    macro_rules! pass {
        ($name:expr, $body:expr) => {{
            $body;
            expect = bump(&expect);
            k.eq($name, read(pdb), expect.clone());
        }};
    }
    pass!("PDB::atoms_mut", pdb.atoms_mut().for_each(|a| a.set_charge(a.charge() + 1)));
    pass!("PDB::conformers_mut", pdb.conformers_mut().for_each(|f| f.atoms_mut().for_each(|a| a.set_charge(a.charge() + 1))));
    pass!("PDB::residues_mut", pdb.residues_mut().for_each(|r| r.atoms_mut().for_each(|a| a.set_charge(a.charge() + 1))));
    pass!("PDB::chains_mut", pdb.chains_mut().for_each(|c| c.atoms_mut().for_each(|a| a.set_charge(a.charge() + 1))));
    pass!("PDB::models_mut", pdb.models_mut().for_each(|m| m.atoms_mut().for_each(|a| a.set_charge(a.charge() + 1))));
    pass!("PDB::atoms_with_hierarchy_mut", pdb.atoms_with_hierarchy_mut().for_each(|mut h| { let c = h.atom().charge(); h.atom_mut().set_charge(c + 1) }));
    pass!("Model::atoms_with_hierarchy_mut", pdb.models_mut().for_each(|m| m.atoms_with_hierarchy_mut().for_each(|mut h| { let c = h.atom().charge(); h.atom_mut().set_charge(c + 1) })));
    pass!("Chain::atoms_with_hierarchy_mut", pdb.chains_mut().for_each(|m| m.atoms_with_hierarchy_mut().for_each(|mut h| { let c = h.atom().charge(); h.atom_mut().set_charge(c + 1) })));
    pass!("Residue::atoms_with_hierarchy_mut", pdb.residues_mut().for_each(|m| m.atoms_with_hierarchy_mut().for_each(|mut h| { let c = h.atom().charge(); h.atom_mut().set_charge(c + 1) })));
    // the mutable tuples name the same ancestors as the immutable ones - walked forwards, backwards and from both ends
    fn tf2(c: &Conformer) -> String { format!("{}:{}", c.name(), c.alternative_location().unwrap_or("-")) }
    fn both_ends<T>(mut it: impl DoubleEndedIterator<Item = T>, f: impl Fn(&T) -> String) -> Vec<String> {
        let (mut front, mut back) = (Vec::new(), Vec::new());
        loop {
            match it.next() { Some(x) => front.push(f(&x)), None => break }
            match it.next_back() { Some(x) => back.push(f(&x)), None => break }
        }
        back.reverse();
        front.extend(back);
        front
    }
    {
        let f5 = |h: &dyn ContainsAtomConformerResidueChainModel| format!("{}/{}/{}/{}/{}", ta(h.atom()), tf2(h.conformer()), tr(h.residue()), tc(h.chain()), tm(h.model()));
        let want: Vec<String> = pdb.atoms_with_hierarchy().map(|h| f5(&h)).collect();
        k.eq("PDB::atoms_with_hierarchy_mut tuples", pdb.atoms_with_hierarchy_mut().map(|h| f5(&h)).collect::<Vec<_>>(), want.clone());
        k.eq("PDB::atoms_with_hierarchy_mut tuples rev", pdb.atoms_with_hierarchy_mut().rev().map(|h| f5(&h)).collect::<Vec<_>>(), want.iter().rev().cloned().collect::<Vec<_>>());
        k.eq("PDB::atoms_with_hierarchy_mut tuples both ends", both_ends(pdb.atoms_with_hierarchy_mut(), |h| f5(h)), want.clone());
    }
    for m in pdb.models_mut() {
        let f4 = |h: &dyn ContainsAtomConformerResidueChain| format!("{}/{}/{}/{}", ta(h.atom()), tf2(h.conformer()), tr(h.residue()), tc(h.chain()));
        let want: Vec<String> = m.atoms_with_hierarchy().map(|h| f4(&h)).collect();
        k.eq("Model::atoms_with_hierarchy_mut tuples", m.atoms_with_hierarchy_mut().map(|h| f4(&h)).collect::<Vec<_>>(), want.clone());
        k.eq("Model::atoms_with_hierarchy_mut tuples rev", m.atoms_with_hierarchy_mut().rev().map(|h| f4(&h)).collect::<Vec<_>>(), want.iter().rev().cloned().collect::<Vec<_>>());
        k.eq("Model::atoms_with_hierarchy_mut tuples both ends", both_ends(m.atoms_with_hierarchy_mut(), |h| f4(h)), want.clone());
    }
    for c in pdb.chains_mut() {
        let f3 = |h: &dyn ContainsAtomConformerResidue| format!("{}/{}/{}", ta(h.atom()), tf2(h.conformer()), tr(h.residue()));
        let want: Vec<String> = c.atoms_with_hierarchy().map(|h| f3(&h)).collect();
        k.eq("Chain::atoms_with_hierarchy_mut tuples", c.atoms_with_hierarchy_mut().map(|h| f3(&h)).collect::<Vec<_>>(), want.clone());
        k.eq("Chain::atoms_with_hierarchy_mut tuples rev", c.atoms_with_hierarchy_mut().rev().map(|h| f3(&h)).collect::<Vec<_>>(), want.iter().rev().cloned().collect::<Vec<_>>());
        k.eq("Chain::atoms_with_hierarchy_mut tuples both ends", both_ends(c.atoms_with_hierarchy_mut(), |h| f3(h)), want.clone());
    }
    for x in pdb.residues_mut() {
        let f2 = |h: &dyn ContainsAtomConformer| format!("{}/{}", ta(h.atom()), tf2(h.conformer()));
        let want: Vec<String> = x.atoms_with_hierarchy().map(|h| f2(&h)).collect();
        k.eq("Residue::atoms_with_hierarchy_mut tuples", x.atoms_with_hierarchy_mut().map(|h| f2(&h)).collect::<Vec<_>>(), want.clone());
        k.eq("Residue::atoms_with_hierarchy_mut tuples rev", x.atoms_with_hierarchy_mut().rev().map(|h| f2(&h)).collect::<Vec<_>>(), want.iter().rev().cloned().collect::<Vec<_>>());
        k.eq("Residue::atoms_with_hierarchy_mut tuples both ends", both_ends(x.atoms_with_hierarchy_mut(), |h| f2(h)), want.clone());
    }
    pass!("Model::conformers_mut/residues_mut/chains_mut", pdb.models_mut().for_each(|m| {
        m.conformers_mut().for_each(|f| f.atoms_mut().for_each(|a| a.set_charge(a.charge() + 1)));
        m.residues_mut().for_each(|r| r.conformers_mut().for_each(|f| f.atoms_mut().for_each(|a| a.set_charge(a.charge() - 1))));
        m.chains_mut().for_each(|c| c.conformers_mut().for_each(|f| f.atoms_mut().for_each(|a| a.set_charge(a.charge() + 1))));
    }));
    // index accessors, mutable twins
    let n = pdb.total_atom_count();
    for i in 0..=n {
        let plain = pdb.atom(i).map(ta);
        k.eq("PDB::atom_mut(i)", pdb.atom_mut(i).map(|a| ta(a)), plain);
    }
    for i in 0..=pdb.total_conformer_count() {
        let plain = pdb.conformer(i).map(tf);
        k.eq("PDB::conformer_mut(i)", pdb.conformer_mut(i).map(|a| tf(a)), plain);
    }
    for i in 0..=pdb.total_residue_count() {
        let plain = pdb.residue(i).map(tr);
        k.eq("PDB::residue_mut(i)", pdb.residue_mut(i).map(|a| tr(a)), plain);
    }
    for i in 0..=pdb.total_chain_count() {
        let plain = pdb.chain(i).map(tc);
        k.eq("PDB::chain_mut(i)", pdb.chain_mut(i).map(|a| tc(a)), plain);
    }
    for i in 0..=pdb.model_count() {
        let plain = pdb.model(i).map(tm);
        k.eq("PDB::model_mut(i)", pdb.model_mut(i).map(|a| tm(a)), plain);
    }
    for p in pools() {
        pass!("PDB::par_atoms_mut", p.install(|| pdb.par_atoms_mut().for_each(|a| a.set_charge(a.charge() + 1))));
        pass!("PDB::par_conformers_mut", p.install(|| pdb.par_conformers_mut().for_each(|f| f.atoms_mut().for_each(|a| a.set_charge(a.charge() + 1)))));
        pass!("PDB::par_residues_mut", p.install(|| pdb.par_residues_mut().for_each(|r| r.par_atoms_mut().for_each(|a| a.set_charge(a.charge() + 1)))));
        pass!("PDB::par_chains_mut", p.install(|| pdb.par_chains_mut().for_each(|c| c.par_atoms_mut().for_each(|a| a.set_charge(a.charge() + 1)))));
        pass!("PDB::par_models_mut", p.install(|| pdb.par_models_mut().for_each(|m| m.par_atoms_mut().for_each(|a| a.set_charge(a.charge() + 1)))));
        pass!("Model::par_*_mut", p.install(|| pdb.models_mut().for_each(|m| {
            m.par_conformers_mut().for_each(|f| f.par_atoms_mut().for_each(|a| a.set_charge(a.charge() + 1)));
            m.par_residues_mut().for_each(|r| r.par_conformers_mut().for_each(|f| f.atoms_mut().for_each(|a| a.set_charge(a.charge() - 1))));
            m.par_chains_mut().for_each(|c| c.par_residues_mut().for_each(|r| r.atoms_mut().for_each(|a| a.set_charge(a.charge() + 1))));
        })));
    }
}

pub fn exec(case: &str) -> Exec {
    let mut t = Toks::new(case);
    t.expect("c09").unwrap();
    t.expect("walk").unwrap();
    let s = SPdb::parse(&mut t).expect("structure");
    let mut ex = Exec::new(case, "");
    let res = guarded(|| {
        let mut pdb = s.to_real().expect("builds");
        let mut o = Vec::new();
        let mut k = Chk { fails: Vec::new(), accessors: 0 };
        {
            let p = &pdb;
            let models: Vec<String> = p.models().map(tm).collect();
            let chains: Vec<String> = p.chains().map(tc).collect();
            let res: Vec<String> = p.residues().map(tr).collect();
            let confs: Vec<String> = p.conformers().map(tf).collect();
            let atoms: Vec<String> = p.atoms().map(ta).collect();
            let h: Vec<String> = p.atoms_with_hierarchy().map(|h| format!("{}/{}/{}/{}/{}", ta(h.atom()), tf(h.conformer()), tr(h.residue()), tc(h.chain()), tm(h.model()))).collect();
            o.push("p".to_string());
            o.push(nums(&[p.model_count(), p.chain_count(), p.residue_count(), p.conformer_count(), p.atom_count(),
                p.total_chain_count(), p.total_residue_count(), p.total_conformer_count(), p.total_atom_count()]));
            o.push(lst("M", &models));
            o.push(lst("C", &chains));
            o.push(lst("R", &res));
            o.push(lst("F", &confs));
            o.push(lst("A", &atoms));
            o.push(lst("rA", &p.atoms().rev().map(ta).collect::<Vec<_>>()));
            o.push(lst("H", &h));
            o.push(idx("iM", models.len(), |i| p.model(i).map(tm)));
            o.push(idx("iC", chains.len(), |i| p.chain(i).map(tc)));
            o.push(idx("iR", res.len(), |i| p.residue(i).map(tr)));
            o.push(idx("iF", confs.len(), |i| p.conformer(i).map(tf)));
            o.push(idx("iA", atoms.len(), |i| p.atom(i).map(ta)));
            // oracle: the agreements of the statement, on the implementation alone
            let first = p.models().next();
            k.eq("PDB::model_count", p.model_count(), models.len());
            k.eq("PDB::chain_count (first model)", p.chain_count(), first.map_or(0, |m| m.chains().count()));
            k.eq("PDB::residue_count (first model)", p.residue_count(), first.map_or(0, |m| m.residues().count()));
            k.eq("PDB::conformer_count (first model)", p.conformer_count(), first.map_or(0, |m| m.conformers().count()));
            k.eq("PDB::atom_count (first model)", p.atom_count(), first.map_or(0, |m| m.atoms().count()));
            k.eq("PDB::total_chain_count", p.total_chain_count(), chains.len());
            k.eq("PDB::total_residue_count", p.total_residue_count(), res.len());
            k.eq("PDB::total_conformer_count", p.total_conformer_count(), confs.len());
            k.eq("PDB::total_atom_count", p.total_atom_count(), atoms.len());
            k.eq("PDB::chains flat=nested", chains.clone(), p.models().flat_map(|m| m.chains().map(tc)).collect());
            k.eq("PDB::residues flat=nested", res.clone(), p.models().flat_map(|m| m.chains().flat_map(|c| c.residues().map(tr))).collect());
            k.eq("PDB::conformers flat=nested", confs.clone(), p.models().flat_map(|m| m.chains().flat_map(|c| c.residues().flat_map(|r| r.conformers().map(tf)))).collect());
            k.eq("PDB::atoms flat=nested", atoms.clone(), p.models().flat_map(|m| m.chains().flat_map(|c| c.residues().flat_map(|r| r.conformers().flat_map(|f| f.atoms().map(ta))))).collect());
            k.eq("PDB::models rev", p.models().rev().map(tm).collect::<Vec<_>>(), models.iter().rev().cloned().collect::<Vec<_>>());
            k.eq("PDB::chains rev", p.chains().rev().map(tc).collect::<Vec<_>>(), chains.iter().rev().cloned().collect::<Vec<_>>());
            k.eq("PDB::residues rev", p.residues().rev().map(tr).collect::<Vec<_>>(), res.iter().rev().cloned().collect::<Vec<_>>());
            k.eq("PDB::conformers rev", p.conformers().rev().map(tf).collect::<Vec<_>>(), confs.iter().rev().cloned().collect::<Vec<_>>());
            k.eq("PDB::atoms_with_hierarchy rev", p.atoms_with_hierarchy().rev().map(|h| ta(h.atom())).collect::<Vec<_>>(), atoms.iter().rev().cloned().collect::<Vec<_>>());
            for hh in p.atoms_with_hierarchy() {
                k.eq("PDB::atoms_with_hierarchy ancestors",
                    hh.conformer().atoms().any(|a| std::ptr::eq(a, hh.atom())) && hh.residue().conformers().any(|f| std::ptr::eq(f, hh.conformer()))
                        && hh.chain().residues().any(|r| std::ptr::eq(r, hh.residue())) && hh.model().chains().any(|c| std::ptr::eq(c, hh.chain()))
                        && p.models().any(|m| std::ptr::eq(m, hh.model())), true);
            }
            for pool in pools() {
                k.eq("PDB::par_residue_count", pool.install(|| p.par_residue_count()), p.residue_count());
                k.eq("PDB::par_conformer_count", pool.install(|| p.par_conformer_count()), p.conformer_count());
                k.eq("PDB::par_atom_count", pool.install(|| p.par_atom_count()), p.atom_count());
                k.eq("PDB::par_total_chain_count", pool.install(|| p.par_total_chain_count()), chains.len());
                k.eq("PDB::par_total_residue_count", pool.install(|| p.par_total_residue_count()), res.len());
                k.eq("PDB::par_total_conformer_count", pool.install(|| p.par_total_conformer_count()), confs.len());
                k.eq("PDB::par_total_atom_count", pool.install(|| p.par_total_atom_count()), atoms.len());
                k.same_set("PDB::par_models", pool.install(|| p.par_models().map(tm).collect()), models.clone());
                k.same_set("PDB::par_chains", pool.install(|| p.par_chains().map(tc).collect()), chains.clone());
                k.same_set("PDB::par_residues", pool.install(|| p.par_residues().map(tr).collect()), res.clone());
                k.same_set("PDB::par_conformers", pool.install(|| p.par_conformers().map(tf).collect()), confs.clone());
                k.same_set("PDB::par_atoms", pool.install(|| p.par_atoms().map(ta).collect()), atoms.clone());
            }
            for m in p.models() {
                walk_model(m, &mut o, &mut k);
            }
        }
        check_mut(&mut pdb, &mut k);
        (o.join(" "), k)
    });
    match res {
        Err(m) => {
            ex.resp = "PANIC".into();
            ex.failures.push(Failure::new("walk-panicked", m));
        }
        Ok((o, k)) => {
            ex.resp = o;
            ex.tags.push(format!("accessor-comparisons:{}", if k.accessors < 200 { "<200" } else if k.accessors < 1000 { "200-999" } else { ">=1000" }));
            ex.tags.push(format!("atoms:{}", match s.atom_count() { 0 => "0", 1..=5 => "1-5", 6..=30 => "6-30", _ => ">30" }));
            ex.tags.push(format!("models:{}", s.models.len()));
            // one failure per accessor name is enough
            let mut seen = std::collections::HashSet::new();
            for f in k.fails {
                if seen.insert(f.features.get("accessor").cloned()) {
                    ex.failures.push(f);
                }
            }
        }
    }
    ex
}
