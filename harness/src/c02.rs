//! C02 — mmCIF reading recovers exactly what the data items state, whatever the layout.
//! Grammar-generated documents; the structure the rows state is built independently through the public API;
//! every document is read in its canonical and in a randomised layout; single-token corruptions must be refused.
use crate::cifdoc::*;
use crate::enc::*;
use crate::pdbio::*;
use crate::rng::Rng;
use crate::st::dump;
use crate::{budget, Exec, Failure};

fn body(p: &pdbtbx::PDB) -> Option<String> {
    let m = meta_toks(p)?;
    Some(format!("{} {}", m.join(" "), dump(p)).split(' ').filter(|t| !t.is_empty()).collect::<Vec<_>>().join(" "))
}

pub fn gen(tier: &str, r: &mut Rng) -> Vec<String> {
    let mut out = Vec::new();
    let n = budget(tier, 500, 15_000);
    for _ in 0..n {
        let mixed = r.chance(1, 4);
        let with_h = r.chance(1, 2);
        let numeric_ids = r.chance(1, 12);
        let d = gen_doc_ids(r, with_h, mixed, numeric_ids);
        let level = *r.pick(&["Strict", "Medium", "Loose"]);
        let plain = render(&d, r, true);
        let mut fancy = render(&d, r, false);
        // DOS line ends throughout (text fields then close with CR LF ;)
        if r.chance(1, 5) { fancy = fancy.replace("\r\n", "\n").replace('\n', "\r\n"); }
        let exp = if has_mixed_alt(&d) { None } else { expected(&d).and_then(|p| body(&p)) };
        match exp {
            Some(e) => {
                let k = if numeric_ids { "expect-numeric-ids" } else { "expect" };
                out.push(format!("c02 {} {} {} {}", k, level, enc_bytes(plain.as_bytes()), e));
                out.push(format!("c02 {} {} {} {}", k, level, enc_bytes(fancy.as_bytes()), e));
            }
            None => out.push(format!("c02 {} {} {} {}", if numeric_ids { "same-numeric-ids" } else { "same" }, level, enc_bytes(plain.as_bytes()), enc_bytes(fancy.as_bytes()))),
        }
        // a second random layout of the same document against the first
        let fancy2 = render(&d, r, false);
        out.push(format!("c02 {} {} {} {}", if numeric_ids { "same-numeric-ids" } else { "same" }, level, enc_bytes(fancy.as_bytes()), enc_bytes(fancy2.as_bytes())));
        // single-token corruptions: a non-numeric token in a numeric column, a missing mandatory value
        if !d.rows.is_empty() {
            for _ in 0..2 {
                let mut c = d.clone();
                let row = r.below(c.rows.len());
                let numeric: Vec<&str> = NUMERIC.iter().copied().filter(|n| MANDATORY.contains(n) || c.cols.contains(n)).collect();
                let (col, tok, what) = if r.chance(1, 2) {
                    (r.pick(&numeric).to_string(), r.pick(&["abc", "1.2.3", "--1", "1e", "1,5", "0x10", "1.5(", "N/A", "'one'", "1.0(2)"]).to_string(), "non-numeric")
                } else {
                    (r.pick(&["id", "label_atom_id", "label_comp_id", "Cartn_x", "Cartn_y", "Cartn_z"]).to_string(), r.pick(&["?", "."]).to_string(), "missing")
                };
                // a label_seq_id is only consulted when there is no author number
                if col == "label_seq_id" && c.rows[row].auth_seq.is_some() { continue; }
                c.replace = Some((row, col.clone(), tok.clone()));
                let pl = r.chance(1, 2);
                let text = render(&c, r, pl);
                out.push(format!("c02 reject {} {} {}:{}:{}", r.pick(&["Strict", "Medium", "Loose"]), enc_bytes(text.as_bytes()), what, col, enc_str(&tok)));
            }
        }
    }
    out
}

pub fn exec(case: &str) -> Exec {
    let mut t = crate::st::Toks::new(case);
    t.expect("c02").unwrap();
    let kind = t.next().unwrap().to_string();
    let level = t.next().unwrap().to_string();
    let bytes = dec_bytes(t.next().unwrap()).unwrap();
    let o = Opts::parse(&level, "000");
    let mut ex = Exec::new("", "");
    ex.tags.push(format!("kind:{kind}"));
    ex.tags.push(format!("level:{level}"));
    let feat = |f: Failure| f.feat("reader_level", &level).feat("numeric_looking_identifiers", kind.ends_with("numeric-ids"));
    match kind.as_str() {
        "expect" | "expect-numeric-ids" => {
            let want: String = t.v[t.i..].join(" ");
            let r = read("mmcif", &o, &bytes);
            ex.req = format!("cif read {} 000 {}", level, enc_bytes(&bytes));
            ex.resp = strip_lines(&outcome_tok(&r));
            match &r {
                Read::Panic(m) => ex.failures.push(feat(Failure::new("reader-panicked", m.chars().take(160).collect::<String>()))),
                Read::Err(d) => ex.failures.push(feat(Failure::new("valid-document-rejected", diags_tok(d)))),
                Read::Ok(p, _) => match body(p) {
                    Some(got) => if got == want && !nearest_doubles(p) {
                        ex.failures.push(feat(Failure::new("number-read-is-not-the-nearest-double-of-its-token", "")));
                    } else if got != want { ex.failures.push(feat(Failure::new("read-differs-from-what-the-data-items-state", first_diff(&want, &got)))); },
                    None => ex.failures.push(feat(Failure::new("read-values-are-not-the-stated-decimals", ""))),
                },
            }
        }
        "same" | "same-numeric-ids" => {
            let bytes2 = dec_bytes(t.next().unwrap()).unwrap();
            let (r1, r2) = (read("mmcif", &o, &bytes), read("mmcif", &o, &bytes2));
            ex.req = format!("cif read {} 000 {}", level, enc_bytes(&bytes2));
            ex.resp = strip_lines(&outcome_tok(&r2));
            let (a, b2) = (strip_lines(&outcome_tok(&r1)), ex.resp.clone());
            if matches!(r1, Read::Panic(_)) || matches!(r2, Read::Panic(_)) { ex.failures.push(feat(Failure::new("reader-panicked", ""))); }
            else if a != b2 { ex.failures.push(feat(Failure::new("layout-changes-the-result", first_diff(&a, &b2)))); }
            else if !matches!(r1, Read::Ok(..)) { ex.failures.push(feat(Failure::new("valid-document-rejected", a.chars().take(200).collect::<String>()))); }
        }
        "reject" => {
            let what = t.next().unwrap().to_string();
            ex.tags.push(format!("corruption:{}", what.split(':').next().unwrap()));
            let r = read("mmcif", &o, &bytes);
            ex.req = format!("cif read {} 000 {}", level, enc_bytes(&bytes));
            ex.resp = strip_lines(&outcome_tok(&r));
            match &r {
                Read::Panic(m) => ex.failures.push(feat(Failure::new("reader-panicked", m.chars().take(160).collect::<String>()))),
                Read::Ok(..) => ex.failures.push(feat(Failure::new("corrupted-document-accepted", what.clone())).feat("corruption", what.split(':').take(2).collect::<Vec<_>>().join(":"))),
                Read::Err(d) => if d.is_empty() { ex.failures.push(feat(Failure::new("empty-rejection-list", ""))); },
            }
        }
        _ => panic!("unknown c02 case"),
    }
    ex
}

/// every number of the structure is the correctly rounded double of its (micro-unit) decimal: the generated
/// tokens are exact multiples of 1e-6 and `k as f64 / 1e6` is the nearest double of that decimal
fn nearest_doubles(p: &pdbtbx::PDB) -> bool {
    let ok = |v: f64| { let k = (v * 1e6).round(); v == k / 1e6 };
    p.atoms().all(|a| ok(a.x()) && ok(a.y()) && ok(a.z()) && ok(a.occupancy()) && ok(a.b_factor()) && a.anisotropic_temperature_factors().map_or(true, |t| t.iter().flatten().all(|v| ok(*v))))
        && p.unit_cell.as_ref().map_or(true, |c| ok(c.a()) && ok(c.b()) && ok(c.c()) && ok(c.alpha()) && ok(c.beta()) && ok(c.gamma()))
        && p.scale.iter().chain(p.origx.iter()).all(|m| m.matrix().iter().flatten().all(|v| ok(*v)))
        && p.mtrix().all(|m| m.transformation.matrix().iter().flatten().all(|v| ok(*v)))
}

pub fn first_diff(a: &str, b2: &str) -> String {
    let (x, y): (Vec<&str>, Vec<&str>) = (a.split(' ').collect(), b2.split(' ').collect());
    for i in 0..x.len().min(y.len()) { if x[i] != y[i] { return format!("token {}: {:?} vs {:?}", i, &x[i.saturating_sub(3)..(i + 3).min(x.len())], &y[i.saturating_sub(3)..(i + 3).min(y.len())]); } }
    format!("length {} vs {}", x.len(), y.len())
}
