//! vharness — generates cases, runs the real pdbtbx in-process (under catch_unwind), evaluates the
//! implementation-side oracles and writes the request lines for the Lean model driver.
//!
//!   vharness run <prop> <tier> <seed> <outdir> [corpus-file...]
//!   vharness replay <prop> <outdir> <case-file>
//!
//! Files written to <outdir>: <prop>.case (one case per line), <prop>.req (model request per case,
//! `-` when the case has no model counterpart), <prop>.impl (implementation response per case),
//! <prop>.oracle (`ok` or `FAIL <json>` per case), <prop>.stats.json.
mod enc;
mod pdbtext;
mod rng;
mod st;
mod c01;
mod c02;
mod c03;
mod c04;
mod c05;
mod c06;
mod cifdoc;
mod full;
mod c07;
mod pdbio;
mod c08;
mod c09;
mod c10;
mod c11;
mod c12;
mod c13;
mod c14;
mod c15;
mod c16;
mod c17;
mod c18;

use std::collections::BTreeMap;
use std::io::Write;
use std::panic::{catch_unwind, AssertUnwindSafe};

#[derive(Debug, Clone)]
pub struct Failure {
    pub kind: String,
    pub detail: String,
    pub features: BTreeMap<String, String>,
}
impl Failure {
    pub fn new(kind: &str, detail: impl Into<String>) -> Failure {
        Failure { kind: kind.to_string(), detail: detail.into(), features: BTreeMap::new() }
    }
    pub fn feat(mut self, k: &str, v: impl ToString) -> Failure {
        self.features.insert(k.to_string(), v.to_string());
        self
    }
    pub fn json(&self) -> String {
        let mut m = serde_json::Map::new();
        m.insert("kind".into(), self.kind.clone().into());
        m.insert("detail".into(), self.detail.clone().into());
        let mut f = serde_json::Map::new();
        for (k, v) in &self.features {
            f.insert(k.clone(), v.clone().into());
        }
        m.insert("features".into(), f.into());
        serde_json::Value::Object(m).to_string()
    }
}

/// Result of executing one case on the real implementation.
pub struct Exec {
    /// request line for the model driver ("-" = none)
    pub req: String,
    /// canonical implementation response, compared with the driver's answer
    pub resp: String,
    /// implementation-side oracle verdicts (model-free)
    pub failures: Vec<Failure>,
    /// labels counted into the distribution statistics
    pub tags: Vec<String>,
}
impl Exec {
    pub fn new(req: impl Into<String>, resp: impl Into<String>) -> Exec {
        Exec { req: req.into(), resp: resp.into(), failures: Vec::new(), tags: Vec::new() }
    }
    pub fn fail(mut self, f: Failure) -> Exec {
        self.failures.push(f);
        self
    }
    pub fn tag(mut self, t: impl Into<String>) -> Exec {
        self.tags.push(t.into());
        self
    }
}

pub struct Stats {
    pub counts: BTreeMap<String, u64>,
}
impl Stats {
    pub fn bump(&mut self, k: &str) {
        *self.counts.entry(k.to_string()).or_insert(0) += 1;
    }
}

/// case budget per tier: `search` (directed search after a broken obligation/tie) is 4x quick
pub fn budget(tier: &str, quick: usize, thorough: usize) -> usize {
    match tier {
        "thorough" => thorough,
        "search" => 4 * quick,
        _ => quick,
    }
}

/// run `f` catching panics of the implementation; the panic message is returned
pub fn guarded<T>(f: impl FnOnce() -> T) -> Result<T, String> {
    catch_unwind(AssertUnwindSafe(f)).map_err(|e| {
        if let Some(s) = e.downcast_ref::<&str>() {
            s.to_string()
        } else if let Some(s) = e.downcast_ref::<String>() {
            s.clone()
        } else {
            "panic".to_string()
        }
    })
}

fn gen(prop: &str, tier: &str, seed: u64) -> Vec<String> {
    let mut r = rng::Rng::new(seed, prop);
    match prop {
        "C01" => c01::gen(tier, &mut r),
        "C02" => c02::gen(tier, &mut r),
        "C03" => c03::gen(tier, &mut r),
        "C04" => c04::gen(tier, &mut r),
        "C05" => c05::gen(tier, &mut r),
        "C06" => c06::gen(tier, &mut r),
        "C07" => c07::gen(tier, &mut r),
        "C08" => c08::gen(tier, &mut r),
        "C09" => c09::gen(tier, &mut r),
        "C10" => c10::gen(tier, &mut r),
        "C11" => c11::gen(tier, &mut r),
        "C12" => c12::gen(tier, &mut r),
        "C13" => c13::gen(tier, &mut r),
        "C14" => c14::gen(tier, &mut r),
        "C15" => c15::gen(tier, &mut r),
        "C16" => c16::gen(tier, &mut r),
        "C17" => c17::gen(tier, &mut r),
        "C18" => c18::gen(tier, &mut r),
        _ => panic!("unknown property {prop}"),
    }
}

fn exec(prop: &str, case: &str) -> Exec {
    match prop {
        "C01" => c01::exec(case),
        "C02" => c02::exec(case),
        "C03" => c03::exec(case),
        "C04" => c04::exec(case),
        "C05" => c05::exec(case),
        "C06" => c06::exec(case),
        "C07" => c07::exec(case),
        "C08" => c08::exec(case),
        "C09" => c09::exec(case),
        "C10" => c10::exec(case),
        "C11" => c11::exec(case),
        "C12" => c12::exec(case),
        "C13" => c13::exec(case),
        "C14" => c14::exec(case),
        "C15" => c15::exec(case),
        "C16" => c16::exec(case),
        "C17" => c17::exec(case),
        "C18" => c18::exec(case),
        _ => panic!("unknown property {prop}"),
    }
}

fn run_cases(prop: &str, outdir: &str, cases: &[String]) {
    std::fs::create_dir_all(outdir).expect("outdir");
    let open = |ext: &str| {
        std::io::BufWriter::new(std::fs::File::create(format!("{outdir}/{prop}.{ext}")).expect("create"))
    };
    let (mut fc, mut fr, mut fi, mut fo) = (open("case"), open("req"), open("impl"), open("oracle"));
    let mut stats = Stats { counts: BTreeMap::new() };
    let mut distinct = std::collections::HashSet::new();
    // the case being executed is kept in `<prop>.current` so that a run the implementation kills (abort,
    // stack overflow, allocation failure) or stalls (the watchdog below) still names its input
    let current_path = format!("{outdir}/{prop}.current");
    let _ = std::fs::remove_file(format!("{outdir}/{prop}.abort"));
    let progress = std::sync::Arc::new(std::sync::atomic::AtomicU64::new(0));
    {
        let progress = progress.clone();
        let abort_path = format!("{outdir}/{prop}.abort");
        let limit = std::env::var("VERIF_CASE_TIMEOUT_S").ok().and_then(|v| v.parse::<u64>().ok()).unwrap_or(300);
        std::thread::spawn(move || {
            let mut seen = progress.load(std::sync::atomic::Ordering::SeqCst);
            let mut since = std::time::Instant::now();
            loop {
                std::thread::sleep(std::time::Duration::from_millis(500));
                let now = progress.load(std::sync::atomic::Ordering::SeqCst);
                if now != seen {
                    seen = now;
                    since = std::time::Instant::now();
                } else if now != 0 && now != u64::MAX && since.elapsed().as_secs() >= limit {
                    let _ = std::fs::write(&abort_path, format!("case {now} did not finish within {limit} s"));
                    std::process::exit(3);
                }
            }
        });
    }
    for (k, c) in cases.iter().enumerate() {
        let _ = std::fs::write(&current_path, c);
        progress.store(k as u64 + 1, std::sync::atomic::Ordering::SeqCst);
        let e = match guarded(|| exec(prop, c)) {
            Ok(e) => e,
            Err(msg) => {
                // a panic that escaped the per-call guards inside `exec`: harness bug or implementation
                // panic in an unguarded place; reported as an oracle failure of kind `harness-panic`
                Exec::new("-", "HARNESS-PANIC").fail(Failure::new("harness-panic", msg))
            }
        };
        writeln!(fc, "{c}").unwrap();
        writeln!(fr, "{}", e.req).unwrap();
        writeln!(fi, "{}", e.resp).unwrap();
        if e.failures.is_empty() {
            writeln!(fo, "ok").unwrap();
        } else {
            let js: Vec<String> = e.failures.iter().map(|f| f.json()).collect();
            writeln!(fo, "FAIL [{}]", js.join(",")).unwrap();
        }
        for t in &e.tags {
            stats.bump(t);
        }
        distinct.insert(e.req.clone() + "|" + &e.resp);
    }
    progress.store(u64::MAX, std::sync::atomic::Ordering::SeqCst);
    let _ = std::fs::remove_file(&current_path);
    stats.counts.insert("_cases".into(), cases.len() as u64);
    stats.counts.insert("_distinct".into(), distinct.len() as u64);
    let js = serde_json::to_string(&stats.counts).unwrap();
    std::fs::write(format!("{outdir}/{prop}.stats.json"), js).unwrap();
}

fn main() {
    // implementation panics are caught and reported; keep stderr quiet
    std::panic::set_hook(Box::new(|_| {}));
    let args: Vec<String> = std::env::args().collect();
    if args.len() < 2 {
        eprintln!("usage: vharness run|replay ...");
        std::process::exit(2);
    }
    match args[1].as_str() {
        "run" => {
            let (prop, tier, seed, outdir) = (&args[2], &args[3], args[4].parse::<u64>().expect("seed"), &args[5]);
            let mut cases = Vec::new();
            for f in &args[6..] {
                if let Ok(s) = std::fs::read_to_string(f) {
                    cases.extend(s.lines().filter(|l| !l.trim().is_empty() && !l.starts_with('#')).map(|l| l.to_string()));
                }
            }
            cases.extend(gen(prop, tier, seed));
            run_cases(prop, outdir, &cases);
        }
        "replay" => {
            let (prop, outdir, file) = (&args[2], &args[3], &args[4]);
            let s = std::fs::read_to_string(file).expect("case file");
            let cases: Vec<String> = s.lines().filter(|l| !l.trim().is_empty() && !l.starts_with('#')).map(|l| l.to_string()).collect();
            run_cases(prop, outdir, &cases);
        }
        _ => {
            eprintln!("unknown command");
            std::process::exit(2);
        }
    }
    // the scratch directory of the file-system cases (c07): every case removes its own files, the directory goes here
    let _ = std::fs::remove_dir_all(std::env::temp_dir().join(format!("pdbtbx-verif-{}", std::process::id())));
}
