//! C16 — copies and re-reads are observationally equal; atom identities stay unique.
use crate::enc::*;
use crate::pdbtext;
use crate::rng::Rng;
use crate::st::*;
use crate::{budget, guarded, Exec, Failure};
use pdbtbx::*;
use std::io::BufReader;

fn counter(a: &Atom) -> usize { serde_json::to_value(a).unwrap()["counter"].as_u64().unwrap() as usize }

const BONDS: &[&str] = &["Covalent", "Disulfide", "Hydrogen", "MetalCoordination", "MisMatchedBasePairs", "SaltBridge",
    "CovalentModificationResidue", "CovalentModificationNucleotideBase", "CovalentModificationNucleotideSugar", "CovalentModificationNucleotidePhosphate"];

/// (uids in traversal order, bond table) as stored, through the serde view
fn identity_view(p: &PDB) -> (Vec<usize>, Vec<(usize, usize, usize)>) {
    let uids: Vec<usize> = p.atoms().map(counter).collect();
    let v = serde_json::to_value(p).unwrap();
    let bonds = v["bonds"].as_array().unwrap().iter().map(|b| {
        let k = BONDS.iter().position(|n| Some(*n) == b[2].as_str()).unwrap_or(99);
        (b[0].as_u64().unwrap() as usize, b[1].as_u64().unwrap() as usize, k)
    }).collect();
    (uids, bonds)
}

/// bonds as pairs of atom positions (what an observer sees)
fn bonds_by_position(p: &PDB) -> Result<Vec<(usize, usize, usize)>, String> {
    guarded(|| {
        let atoms: Vec<&Atom> = p.atoms().collect();
        p.bonds().map(|(a, b, k)| {
            let pa = atoms.iter().position(|x| std::ptr::eq(*x, a)).unwrap();
            let pb = atoms.iter().position(|x| std::ptr::eq(*x, b)).unwrap();
            (pa, pb, BONDS.iter().position(|n| *n == format!("{:?}", k)).unwrap_or(99))
        }).collect()
    })
}

fn show_bonds(l: &[(usize, usize, usize)]) -> String {
    if l.is_empty() { "-".into() } else { l.iter().map(|(a, b, k)| format!("{a}:{b}:{k}")).collect::<Vec<_>>().join(",") }
}
fn csv(l: &[usize]) -> String { if l.is_empty() { "-".into() } else { l.iter().map(|x| x.to_string()).collect::<Vec<_>>().join(",") } }

/// a PDB text with cysteines and SSBOND records
fn ssbond_text(r: &mut Rng) -> String {
    let mut lines = Vec::new();
    let n = 2 + r.below(5);
    let mut atoms = Vec::new();
    let mut serial = 0;
    for i in 0..n {
        for (nm, el) in [("N", "N"), ("CA", "C"), ("SG", "S")] {
            serial += 1;
            atoms.push(pdbtext::AtomRec { het: false, serial, name: nm.into(), alt: ' ', resname: "CYS".into(), chain: if i % 2 == 0 { 'A' } else { 'B' }, resseq: (i + 1) as i64, icode: ' ',
                x: r.range(-50, 50) * 1000, y: r.range(-50, 50) * 1000, z: r.range(-50, 50) * 1000, occ: 1_000_000, b: 10_000_000, seg: String::new(), element: el.into(), charge: 0, aniso: None });
        }
    }
    for k in 0..1 + r.below(3) {
        let (a, b) = (r.below(n), r.below(n));
        let ch = |i: usize| if i % 2 == 0 { 'A' } else { 'B' };
        lines.push(format!("SSBOND {:>3} CYS {} {:>4}    CYS {} {:>4}                          1555   1555  2.03  ", k + 1, ch(a), a + 1, ch(b), b + 1));
    }
    for a in &atoms { lines.push(pdbtext::atom_line(a, r, false)); }
    lines.push("END".into());
    lines.join("\n") + "\n"
}

pub fn gen(tier: &str, r: &mut Rng) -> Vec<String> {
    let mut out = Vec::new();
    let n = budget(tier, 150, 4000);
    for i in 0..n {
        match i % 3 {
            0 => out.push(format!("c16 copies text {}", enc_bytes(ssbond_text(r).as_bytes()))),
            1 => {
                // structure + bonds through add_bond (needs the renumbered form for the lookup)
                let o = GenOpts { max_models: 2, max_chains: 3, max_res: 3, max_conf: 2, max_atoms: 4, allow_empty: false, ..GenOpts::default() };
                let s = gen_pdb(r, &o);
                let (mut pdb, _) = realise(&s);
                pdb.renumber();
                let back = SPdb::from_real(&pdb);
                let total = back.models.first().map_or(0, |m| m.chains.iter().flat_map(|c| &c.residues).flat_map(|x| &x.confs).map(|f| f.atoms.len()).sum::<usize>());
                let nb = r.below(4);
                let pairs: Vec<String> = (0..nb).map(|_| format!("{}:{}", 1 + r.below(total.max(1) + 1), 1 + r.below(total.max(1) + 1))).collect();
                out.push(format!("c16 copies addbond {} {}", if pairs.is_empty() { "-".into() } else { pairs.join(",") }, back.line()));
            }
            _ => {
                // connect_atoms on a small peptide-like cloud
                // connect_atoms infers bonds in every model, not only the first
                let o = GenOpts { max_models: 3, max_chains: 2, max_res: 3, max_conf: 1, max_atoms: 4, allow_empty: false, coord_step: 100_000, ..GenOpts::default() };
                let mut s = gen_pdb(r, &o);
                for m in s.models.iter_mut() { for c in m.chains.iter_mut() { for x in c.residues.iter_mut() { for f in x.confs.iter_mut() { for a in f.atoms.iter_mut() {
                    a.x = r.range(0, 40) * 100_000; a.y = r.range(0, 20) * 100_000; a.z = 0;
                } } } } }
                out.push(format!("c16 copies connect - {}", realise(&s).1.line()));
            }
        }
    }
    // reading the same text twice: SEQRES records of several chains with mismatches (their diagnostics are produced
    // per chain), generated PDB documents and generated mmCIF documents
    for i in 0..budget(tier, 60, 2000) {
        match i % 3 {
            0 => {
                let mut lines: Vec<String> = Vec::new();
                let names = ["ALA", "GLY", "SER", "LYS"];
                let nch = 2 + r.below(5);
                for ci in 0..nch { lines.push(format!("SEQRES   1 {}    3  {} {} {}", (b'A' + ci as u8) as char, r.pick(&names), r.pick(&names), r.pick(&names))); }
                let mut serial = 0;
                for ci in 0..nch { for k in 0..3 { serial += 1; lines.push(format!("ATOM  {:>5}  CA  {} {}{:>4}    {:>8.3}{:>8.3}{:>8.3}  1.00 10.00           C  ", serial, r.pick(&names), (b'A' + ci as u8) as char, k, k as f64, 0.0, 0.0)); } lines.push("TER".into()); }
                lines.push("END".into());
                out.push(format!("c16 twice pdb {}", enc_bytes((lines.join("\n") + "\n").as_bytes())));
            }
            1 => { let d = crate::pdbtext::gen_doc(r, true); let l = crate::pdbtext::render(&d, r, true); out.push(format!("c16 twice pdb {}", enc_bytes((l.join("\n") + "\n").as_bytes()))); }
            _ => { let d = crate::cifdoc::gen_doc(r, true, true); let t = crate::cifdoc::render(&d, r, false); out.push(format!("c16 twice mmcif {}", enc_bytes(t.as_bytes()))); }
        }
    }
    for _ in 0..budget(tier, 30, 500) {
        // atoms without element whose name is changed to an element symbol afterwards
        let o = GenOpts { max_models: 1, max_chains: 2, max_res: 2, max_conf: 2, max_atoms: 3, allow_empty: false, ..GenOpts::default() };
        let mut s = gen_pdb(r, &o);
        for m in s.models.iter_mut() { for c in m.chains.iter_mut() { for x in c.residues.iter_mut() { for f in x.confs.iter_mut() { for a in f.atoms.iter_mut() {
            if r.chance(1, 2) { a.name = "XX".into(); a.el = 0; }
        } } } } }
        out.push(format!("c16 copies rename - {}", realise(&s).1.line()));
    }
    for t in [1usize, 2, 3, 4, 8, 16] {
        for _ in 0..budget(tier, 2, 10) {
            out.push(format!("c16 threads {} {}", t, budget(tier, 500, 70_000)));
        }
    }
    // many short rounds of threads released together by a barrier: whatever a thread does when it creates its first
    // atom (or its 64th, 128th ...) happens at the same moment in all of them
    let heavy = std::env::var("VERIF_C16_ROUNDS").ok().and_then(|v| v.parse::<usize>().ok());
    for t in [2usize, 4, 8, 16] {
        out.push(format!("c16 rounds {} {} {}", t, heavy.unwrap_or(budget(tier, 150, 3000)), *r.pick(&[3usize, 70, 130])));
    }
    // clones taken while other threads create atoms: the identities a clone gets are then not consecutive
    for t in [2usize, 6] { out.push(format!("c16 cloneload {} {}", t, budget(tier, 60, 600))); }
    out
}

fn snapshot(p: &PDB) -> String {
    // hierarchy, every atom field, metadata that `PDB` carries
    format!("{} | id={:?} remarks={:?} cell={:?} sym={:?} scale={:?} origx={:?} mtrix={}", dump(p), p.identifier, p.remarks().collect::<Vec<_>>(), p.unit_cell,
        p.symmetry.as_ref().map(|s| s.index()), p.scale.as_ref().map(|m| m.matrix()), p.origx.as_ref().map(|m| m.matrix()), p.mtrix().count())
}

pub fn exec(case: &str) -> Exec {
    let mut t = Toks::new(case);
    t.expect("c16").unwrap();
    let op = t.next().unwrap().to_string();
    let mut ex = Exec::new(case, "");
    match op.as_str() {
        "twice" => {
            let fmt = t.next().unwrap().to_string();
            let b = dec_bytes(t.next().unwrap()).unwrap();
            ex.req = "-".into(); ex.resp = "-".into();
            ex.tags.push(format!("twice:{fmt}"));
            let format = if fmt == "pdb" { Format::Pdb } else { Format::Mmcif };
            let rd = || ReadOptions::default().set_format(format).set_level(StrictnessLevel::Loose).read_raw(BufReader::new(&b[..]));
            let show = |d: &[PDBError]| d.iter().map(|e| format!("{:?}", e)).collect::<Vec<_>>();
            let fail = |ex: &mut Exec, kind: &str, d: String, f: &str| ex.failures.push(Failure::new(kind, d).feat("format", f));
            for _ in 0..4 {
                match (guarded(rd), guarded(rd)) {
                    (Ok(Ok((p1, d1))), Ok(Ok((p2, d2)))) => {
                        if p1 != p2 { fail(&mut ex, "two-reads-give-unequal-structures", String::new(), &fmt); break; }
                        if show(&d1) != show(&d2) { fail(&mut ex, "two-reads-list-their-diagnostics-differently", String::new(), &fmt); break; }
                    }
                    (Ok(Err(d1)), Ok(Err(d2))) => if show(&d1) != show(&d2) { fail(&mut ex, "two-reads-list-their-diagnostics-differently", String::new(), &fmt); break; },
                    (Ok(Ok(_)), Ok(Err(_))) | (Ok(Err(_)), Ok(Ok(_))) => { fail(&mut ex, "two-reads-disagree-on-acceptance", String::new(), &fmt); break; }
                    _ => { fail(&mut ex, "read-panicked", String::new(), &fmt); break; }
                }
            }
        }
        "threads" => {
            let n = t.usize().unwrap();
            let k = t.usize().unwrap();
            ex.tags.push(format!("threads:{n}"));
            // atoms that stay alive while the threads run
            let live: Vec<Atom> = (0..100).map(|i| Atom::new(false, i, "l", "CA", 0.0, 0.0, 0.0, 1.0, 0.0, "C", 0).unwrap()).collect();
            let handles: Vec<std::thread::JoinHandle<Vec<usize>>> = (0..n).map(|ti| std::thread::spawn(move || {
                let mut ids = Vec::with_capacity(k);
                let proto = Atom::new(false, ti, "p", "N", 0.0, 0.0, 0.0, 1.0, 0.0, "N", 0).unwrap();
                ids.push(counter_raw(&proto));
                for i in 1..k {
                    let a = if i % 2 == 0 { proto.clone() } else { Atom::new(false, i, "x", "O", 0.0, 0.0, 0.0, 1.0, 0.0, "O", 0).unwrap() };
                    ids.push(counter_raw(&a));
                }
                ids
            })).collect();
            let mut all: Vec<usize> = live.iter().map(counter_raw).collect();
            for h in handles { all.extend(h.join().unwrap()); }
            let total = all.len();
            all.sort();
            all.dedup();
            ex.req = format!("c16 sched 0 {}", csv(&vec![0; 12.min(total)]));
            ex.resp = "distinct 12 12".into();
            if total < 12 { ex.req = "-".into(); }
            if all.len() != total {
                ex.failures.push(Failure::new("duplicate-atom-identity", format!("{} identities for {} atoms", all.len(), total)).feat("threads", n));
            }
        }
        "rounds" => {
            let n = t.usize().unwrap();
            let rounds = t.usize().unwrap();
            let per = t.usize().unwrap();
            ex.tags.push(format!("rounds:{n}"));
            ex.req = "-".into();
            ex.resp = "-".into();
            let live: Vec<Atom> = (0..10).map(|i| Atom::new(false, i, "l", "CA", 0.0, 0.0, 0.0, 1.0, 0.0, "C", 0).unwrap()).collect();
            for round in 0..rounds {
                let barrier = std::sync::Arc::new(std::sync::Barrier::new(n));
                let handles: Vec<std::thread::JoinHandle<Vec<Atom>>> = (0..n).map(|ti| { let bar = barrier.clone(); std::thread::spawn(move || {
                    bar.wait();
                    let mut atoms = Vec::with_capacity(per);
                    for i in 0..per {
                        let a = Atom::new(false, i, "x", "O", 0.0, 0.0, 0.0, 1.0, 0.0, "O", 0).unwrap();
                        atoms.push(if i % 3 == 2 { a.clone() } else { a });
                    }
                    let _ = ti;
                    atoms
                }) }).collect();
                // all atoms of the round stay alive until their identities are compared
                let made: Vec<Vec<Atom>> = handles.into_iter().map(|h| h.join().unwrap()).collect();
                let mut all: Vec<usize> = live.iter().map(counter_raw).collect();
                for v in &made { all.extend(v.iter().map(counter_raw)); }
                let total = all.len();
                all.sort();
                all.dedup();
                if all.len() != total {
                    ex.failures.push(Failure::new("duplicate-atom-identity", format!("{} identities for {} live atoms in round {}", all.len(), total, round)).feat("threads", n).feat("released_together", true));
                    break;
                }
            }
        }
        "cloneload" => {
            let n = t.usize().unwrap();
            let reps = t.usize().unwrap();
            ex.tags.push(format!("cloneload:{n}"));
            ex.req = "-".into();
            ex.resp = "-".into();
            let text = "ATOM      1  SG  CYS A   1       1.000   2.000   3.000  1.00 10.00           S  \nATOM      2  CA  CYS A   1       2.000   2.000   3.000  1.00 10.00           C  \nATOM      3  SG  CYS A   5       1.000   2.000   5.000  1.00 10.00           S  \nATOM      4  SG  CYS B   7       9.000   2.000   3.000  1.00 10.00           S  \nATOM      5  SG  CYS B   9       9.000   2.000   5.000  1.00 10.00           S  \nSSBOND   1 CYS A    1    CYS A    5\nSSBOND   2 CYS B    7    CYS B    9\nEND\n";
            let pdb = match ReadOptions::default().set_format(Format::Pdb).set_level(StrictnessLevel::Loose).read_raw(std::io::BufReader::new(text.as_bytes())) { Ok((p, _)) => p, Err(_) => { ex.failures.push(Failure::new("harness-could-not-read-its-own-text", "")); return ex; } };
            let view = |p: &PDB| -> Result<Vec<(usize, usize)>, String> { guarded(|| { let ids: Vec<usize> = p.atoms().map(|a| a.serial_number()).collect(); let _ = ids; p.bonds().map(|(a, b, _)| (a.serial_number(), b.serial_number())).collect::<Vec<_>>() }) };
            let want = view(&pdb);
            let stop = std::sync::Arc::new(std::sync::atomic::AtomicBool::new(false));
            let workers: Vec<std::thread::JoinHandle<()>> = (0..n).map(|_| { let stop = stop.clone(); std::thread::spawn(move || { while !stop.load(std::sync::atomic::Ordering::Relaxed) { let a = Atom::new(false, 1, "x", "O", 0.0, 0.0, 0.0, 1.0, 0.0, "O", 0).unwrap(); let _b = a.clone(); } }) }).collect();
            for _ in 0..reps {
                let c = pdb.clone();
                let got = view(&c);
                if got != want || c != pdb {
                    ex.failures.push(Failure::new("clone-under-concurrent-atom-creation-differs", format!("{:?} vs {:?}", got, want)).feat("threads", n));
                    break;
                }
            }
            stop.store(true, std::sync::atomic::Ordering::Relaxed);
            for w in workers { let _ = w.join(); }
        }
        "copies" => {
            let kind = t.next().unwrap().to_string();
            let arg = t.next().unwrap().to_string();
            ex.tags.push(format!("copies:{kind}"));
            let mut addbond_failures: Vec<Failure> = Vec::new();
            let built = guarded(|| -> Option<(PDB, Option<Vec<u8>>)> {
                match kind.as_str() {
                    "text" => {
                        let bytes = dec_bytes(&arg).unwrap();
                        let (p, _) = ReadOptions::default().set_format(Format::Pdb).set_level(StrictnessLevel::Loose).read_raw(BufReader::new(&bytes[..])).ok()?;
                        Some((p, Some(bytes)))
                    }
                    "addbond" => {
                        let s = SPdb::parse(&mut t).unwrap();
                        let mut p = s.to_real().unwrap();
                        if arg != "-" {
                            for pr in arg.split(',') {
                                let (a, b) = pr.split_once(':').unwrap();
                                // alternate location of the target: whatever the first match carries
                                let alt = |p: &PDB, serial: usize| p.models().next().and_then(|m| m.atoms_with_hierarchy().find(|h| h.atom().serial_number() == serial).map(|h| h.conformer().alternative_location().map(|s| s.to_string())));
                                let (sa, sb) = (a.parse::<usize>().unwrap(), b.parse::<usize>().unwrap());
                                let (aa, ab) = (alt(&p, sa).flatten(), alt(&p, sb).flatten());
                                // where the two atoms stand in the traversal (first model), worked out without the lookup
                                let pos = |p: &PDB, serial: usize, al: &Option<String>| p.models().next().and_then(|m| m.atoms_with_hierarchy().position(|h| h.atom().serial_number() == serial && h.conformer().alternative_location().map(|s| s.to_string()) == *al));
                                let (pa, pb) = (pos(&p, sa, &aa), pos(&p, sb, &ab));
                                let before = p.bonds().count();
                                let res = p.add_bond((sa, aa.as_deref()), (sb, ab.as_deref()), Bond::Covalent);
                                match (pa, pb, res) {
                                    (Some(x), Some(y), Some(())) => {
                                        let got = bonds_by_position(&p).ok().and_then(|l| l.last().copied());
                                        if p.bonds().count() != before + 1 || got.map(|g| (g.0, g.1)) != Some((x, y)) {
                                            addbond_failures.push(Failure::new("bond-does-not-connect-the-atoms-it-was-created-on", format!("({sa},{aa:?})-({sb},{ab:?}): expected positions {x}:{y}, stored {got:?}")));
                                        }
                                    }
                                    (Some(_), Some(_), None) => addbond_failures.push(Failure::new("bond-between-two-existing-atoms-refused", format!("({sa},{aa:?})-({sb},{ab:?})"))),
                                    (_, _, Some(())) => addbond_failures.push(Failure::new("bond-to-a-missing-atom-accepted", format!("({sa},{aa:?})-({sb},{ab:?})"))),
                                    _ => {}
                                }
                            }
                        }
                        Some((p, None))
                    }
                    "rename" => {
                        let s = SPdb::parse(&mut t).unwrap();
                        let mut p = s.to_real().unwrap();
                        for a in p.atoms_mut() { if a.element().is_none() { a.set_name("FE").unwrap(); } }
                        Some((p, None))
                    }
                    _ => {
                        let s = SPdb::parse(&mut t).unwrap();
                        let mut p = s.to_real().unwrap();
                        p.connect_atoms();
                        Some((p, None))
                    }
                }
            });
            ex.failures.extend(addbond_failures.drain(..));
            let (pdb, bytes) = match built {
                Err(m) => { ex.req = "-".into(); ex.resp = "-".into(); ex.failures.push(Failure::new("building-the-structure-panicked", m).feat("kind", &kind)); return ex; }
                Ok(None) => { ex.req = "-".into(); ex.resp = "-".into(); ex.tags.push("input-rejected".into()); return ex; }
                Ok(Some(x)) => x,
            };
            let (uids, table) = identity_view(&pdb);
            let base = uids.iter().copied().min().unwrap_or(0);
            let nuids: Vec<usize> = uids.iter().map(|u| u - base).collect();
            let ntable: Vec<(usize, usize, usize)> = table.iter().map(|(a, b, k)| (a.saturating_sub(base), b.saturating_sub(base), *k)).collect();
            let c0 = nuids.iter().copied().max().map_or(0, |m| m + 1);
            ex.req = format!("c16 clone {} {} {}", c0, csv(&nuids), show_bonds(&ntable));
            ex.tags.push(format!("bonds:{}", match table.len() { 0 => "0", 1..=3 => "1-3", _ => ">3" }));
            let orig_bonds = bonds_by_position(&pdb);
            let orig_snap = snapshot(&pdb);
            let fail = |ex: &mut Exec, kind: &str, d: String, copy: &str| ex.failures.push(Failure::new(kind, d).feat("copy", copy).feat("source", &*kind_of(&ex.tags)));
            if let Err(m) = &orig_bonds { fail(&mut ex, "listing-bonds-panicked", m.clone(), "original"); }
            // the three kinds of copy
            let mut copies: Vec<(&str, Result<PDB, String>)> = Vec::new();
            copies.push(("clone", guarded(|| pdb.clone())));
            copies.push(("serde", guarded(|| serde_json::from_value::<PDB>(serde_json::to_value(&pdb).unwrap()).unwrap())));
            if let Some(b) = &bytes {
                copies.push(("reread", guarded(|| ReadOptions::default().set_format(Format::Pdb).set_level(StrictnessLevel::Loose).read_raw(BufReader::new(&b[..])).unwrap().0)));
            }
            for (name, c) in copies {
                match c {
                    Err(m) => fail(&mut ex, "copy-panicked", m, name),
                    Ok(c) => {
                        match guarded(|| c == pdb) {
                            Ok(true) => {}
                            Ok(false) => fail(&mut ex, "copy-not-equal-to-original", String::new(), name),
                            Err(m) => fail(&mut ex, "equality-panicked", m, name),
                        }
                        if snapshot(&c) != orig_snap { fail(&mut ex, "copy-answers-a-query-differently", "snapshot".into(), name); }
                        let cb = bonds_by_position(&c);
                        match (&cb, &orig_bonds) {
                            (Ok(x), Ok(y)) if x == y => {}
                            (Err(m), _) => fail(&mut ex, "listing-bonds-of-copy-panicked", m.clone(), name),
                            (Ok(x), Ok(y)) => fail(&mut ex, "copy-lists-different-bonds", format!("{:?} vs {:?}", x, y), name),
                            _ => {}
                        }
                        if name == "clone" {
                            ex.resp = match &cb { Ok(x) => show_bonds(x), Err(_) => "FAIL".into() };
                            // identities of the clone are fresh
                            let (cu, _) = identity_view(&c);
                            if cu.iter().any(|u| uids.contains(u)) { fail(&mut ex, "clone-shares-an-atom-identity", String::new(), name); }
                            // subsequent edits that keep both atoms of every bond: bonds still resolve to the same atoms
                            let mut e = c.clone();
                            let keep: std::collections::HashSet<usize> = cb.as_ref().map(|v| v.iter().flat_map(|(a, b, _)| [*a, *b]).collect()).unwrap_or_default();
                            let ids_kept: Vec<String> = e.atoms().enumerate().filter(|(i, _)| keep.contains(i)).map(|(_, a)| a.id().to_string()).collect();
                            e.remove_atoms_by(|a| !ids_kept.contains(&a.id().to_string()) && a.serial_number() % 2 == 0);
                            e.full_sort();
                            match guarded(|| e.bonds().map(|(a, b, _)| (a.id().to_string(), b.id().to_string())).collect::<Vec<_>>()) {
                                Err(m) => fail(&mut ex, "listing-bonds-after-edits-panicked", m, name),
                                Ok(after) => {
                                    let before: Vec<(String, String)> = c.bonds().map(|(a, b, _)| (a.id().to_string(), b.id().to_string())).collect();
                                    if after != before { fail(&mut ex, "bond-resolves-to-other-atoms-after-edits", format!("{:?} vs {:?}", after, before), name); }
                                }
                            }
                        }
                    }
                }
            }
            if let Some(b) = &bytes {
                // reading the same input twice: equal structures, same diagnostics
                let rd = || ReadOptions::default().set_format(Format::Pdb).set_level(StrictnessLevel::Loose).read_raw(BufReader::new(&b[..]));
                if let (Ok(Ok((p1, d1))), Ok(Ok((p2, d2)))) = (guarded(rd), guarded(rd)) {
                    let lv = |d: &[PDBError]| { let mut v: Vec<String> = d.iter().map(|e| format!("{}:{}", e.level(), e.short_description())).collect(); v.sort(); v };
                    if lv(&d1) != lv(&d2) { fail(&mut ex, "two-reads-give-different-diagnostics", String::new(), "reread"); }
                    if p1 != p2 { fail(&mut ex, "two-reads-give-unequal-structures", String::new(), "reread"); }
                }
            }
        }
        _ => panic!("unknown c16 op"),
    }
    ex
}
fn counter_raw(a: &Atom) -> usize { counter(a) }
fn kind_of(tags: &[String]) -> String { tags.iter().find(|t| t.starts_with("copies:")).cloned().unwrap_or_default() }
