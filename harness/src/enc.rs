//! Token encoding of the line protocol (must agree with PdbModel/Basic.lean).
pub fn enc_str(s: &str) -> String {
    let mut o = String::with_capacity(1 + 2 * s.len());
    o.push('s');
    for c in s.chars() {
        let n = c as u32;
        if n < 256 {
            o.push_str(&format!("{:02x}", n));
        } else {
            o.push_str(&format!("u{:06x}", n));
        }
    }
    o
}
pub fn enc_opt(s: Option<&str>) -> String {
    match s {
        None => "~".to_string(),
        Some(s) => enc_str(s),
    }
}
pub fn enc_bytes(b: &[u8]) -> String {
    let mut o = String::with_capacity(1 + 2 * b.len());
    o.push('b');
    for x in b {
        o.push_str(&format!("{:02x}", x));
    }
    o
}
pub fn dec_bytes(t: &str) -> Option<Vec<u8>> {
    let t = t.strip_prefix('b')?;
    if t.len() % 2 != 0 {
        return None;
    }
    (0..t.len() / 2)
        .map(|i| u8::from_str_radix(&t[2 * i..2 * i + 2], 16).ok())
        .collect()
}
pub fn dec_str(t: &str) -> Option<String> {
    let t = t.strip_prefix('s')?;
    let cs: Vec<char> = t.chars().collect();
    let mut o = String::new();
    let mut i = 0;
    while i < cs.len() {
        if cs[i] == 'u' {
            if i + 7 > cs.len() {
                return None;
            }
            let h: String = cs[i + 1..i + 7].iter().collect();
            o.push(char::from_u32(u32::from_str_radix(&h, 16).ok()?)?);
            i += 7;
        } else {
            if i + 2 > cs.len() {
                return None;
            }
            let h: String = cs[i..i + 2].iter().collect();
            o.push(char::from_u32(u32::from_str_radix(&h, 16).ok()?)?);
            i += 2;
        }
    }
    Some(o)
}
pub fn dec_opt(t: &str) -> Option<Option<String>> {
    if t == "~" {
        Some(None)
    } else {
        dec_str(t).map(Some)
    }
}
/// f64 -> integer in units of 1e-6 (exact for the values the generators build)
pub fn dec6(v: f64) -> i64 {
    (v * 1e6).round() as i64
}
pub fn undec6(k: i64) -> f64 {
    k as f64 / 1e6
}
pub fn b(x: bool) -> &'static str {
    if x {
        "1"
    } else {
        "0"
    }
}
