//! C03 — PDB write -> read round trip is lossless for everything PDB validation accepts.
use crate::enc::*;
use crate::full::*;
use crate::pdbio::*;
use crate::rng::Rng;
use crate::st::*;
use crate::{budget, guarded, Exec, Failure};
use pdbtbx::*;
use std::io::BufWriter;

pub fn gen(tier: &str, r: &mut Rng) -> Vec<String> {
    let mut out = Vec::new();
    let n = budget(tier, 300, 10_000);
    for i in 0..n {
        let o = FullOpts { target: Target::Pdb, in_range: i % 4 != 3, metadata: i % 3 != 0, dbref: i % 5 == 0, max_models: 3 };
        let pdb = match guarded(|| gen_full(r, &o)) { Ok(p) => p, Err(_) => continue };
        let meta = match meta_toks(&pdb) { Some(m) => m, None => continue };
        let line = format!("{} {}", meta.join(" "), dump(&pdb));
        for lvl in ["Strict", "Medium", "Loose"] {
            out.push(format!("c03 rt {} {} {}", lvl, if o.in_range { "fits" } else { "any" }, line));
        }
    }
    // sequentially numbered structures beyond the serial-number columns
    // (atoms, atoms per residue): one wrap of the atom serial column, two wraps of the residue number column,
    // and in the thorough tier two wraps of the atom serial column
    for k in 0..budget(tier, 1, 2) {
        out.push(format!("c03 big {} 9", 100_500 + 11 * k));
        out.push(format!("c03 big {} 1", 20_010 + 7 * k));
    }
    if tier == "thorough" { out.push("c03 big 200010 7".to_string()); }
    out
}

/// rebuild the real structure from `X … P …` tokens
pub fn build(t: &mut Toks) -> Option<PDB> {
    // metadata tokens
    t.expect("X")?;
    let id = dec_opt(t.next()?.strip_prefix("id=")?)?;
    let nrem: usize = t.next()?.strip_prefix("rem=")?.parse().ok()?;
    let mut remarks = Vec::new();
    for _ in 0..nrem { remarks.push((t.usize()?, t.str()?)); }
    let nums = |s: &str| -> Option<Option<Vec<f64>>> { if s == "~" { Some(None) } else { Some(Some(s.split(',').map(|x| x.parse::<i64>().ok().map(undec6)).collect::<Option<Vec<f64>>>()?)) } };
    let cell = nums(t.next()?.strip_prefix("cell=")?)?;
    let sg = t.next()?.strip_prefix("sg=")?.to_string();
    let scale = nums(t.next()?.strip_prefix("scale=")?)?;
    let origx = nums(t.next()?.strip_prefix("origx=")?)?;
    let nm: usize = t.next()?.strip_prefix("mtrix=")?.parse().ok()?;
    let to_mat = |v: &Vec<f64>| TransformationMatrix::from_matrix([[v[0], v[1], v[2], v[3]], [v[4], v[5], v[6], v[7]], [v[8], v[9], v[10], v[11]]]);
    let mut mtrix = Vec::new();
    for _ in 0..nm { let ser = t.usize()?; let g = t.bool()?; let v = nums(t.next()?)??; mtrix.push(MtriX::new(ser, to_mat(&v), g)); }
    let ndb: usize = t.next()?.strip_prefix("db=")?.parse().ok()?;
    let mut dbs = Vec::new();
    for _ in 0..ndb {
        let gi = t.usize()?;
        let (db, acc, idc) = (t.str()?, t.str()?, t.str()?);
        let mut pos = || -> Option<SequencePosition> { let (a, b2, c, d) = (t.i64()?, t.opt()?, t.i64()?, t.opt()?); Some(SequencePosition { start: a as isize, start_insert: b2, end: c as isize, end_insert: d }) };
        let p1 = pos()?; let p2 = pos()?;
        let nd = t.usize()?;
        let mut d = DatabaseReference::new((db, acc, idc), p1, p2);
        for _ in 0..nd {
            let (rn, sn, ins) = (t.str()?, t.i64()?, t.opt()?);
            let dbr = t.next()?;
            let dbres = if dbr == "~" { None } else { let (a, k) = dbr.split_once('/')?; Some((dec_str(a)?, k.parse::<isize>().ok()?)) };
            d.differences.push(SequenceDifference::new((rn, sn as isize, ins), dbres, t.str()?));
        }
        dbs.push((gi, d));
    }
    let nb: usize = t.next()?.strip_prefix("bonds=")?.parse().ok()?;
    for _ in 0..nb { t.next()?; }
    let s = SPdb::parse(t)?;
    let mut pdb = s.to_real()?;
    pdb.identifier = id;
    for (n, txt) in remarks { let _ = pdb.add_remark(n, txt); }
    if let Some(c) = cell { pdb.unit_cell = Some(UnitCell::new(c[0], c[1], c[2], c[3], c[4], c[5])); }
    if sg != "~" { pdb.symmetry = Symmetry::from_index(sg.parse().ok()?); }
    if let Some(v) = scale { pdb.scale = Some(to_mat(&v)); }
    if let Some(v) = origx { pdb.origx = Some(to_mat(&v)); }
    for m in mtrix { pdb.add_mtrix(m); }
    for (gi, d) in dbs { if let Some(c) = pdb.chains_mut().nth(gi) { c.set_database_reference(d); } }
    Some(pdb)
}

fn canon(p: &PDB) -> String {
    // the PDB format has no column for the atom id: ids are compared as file-order positions
    let mut s = SPdb::from_real(p);
    let mut k = 0;
    for m in s.models.iter_mut() { for c in m.chains.iter_mut() { for x in c.residues.iter_mut() { for f in x.confs.iter_mut() { for a in f.atoms.iter_mut() { a.id = k.to_string(); k += 1; } } } } }
    format!("{} {}", meta_toks(p).map_or("INEXACT".to_string(), |m| m.join(" ")), s.line())
}

pub fn exec(case: &str) -> Exec {
    let mut t = Toks::new(case);
    t.expect("c03").unwrap();
    let kind = t.next().unwrap().to_string();
    let mut ex = Exec::new("", "");
    ex.tags.push(format!("kind:{kind}"));
    if kind == "big" {
        let n = t.usize().unwrap();
        let per = t.usize().unwrap_or(9).max(1);
        ex.req = "-".into(); ex.resp = "-".into();
        let res = guarded(|| {
            let mut m = Model::new(0);
            for i in 0..n { m.add_atom(Atom::new(false, i + 1, i.to_string(), "CA", (i % 1000) as f64, 0.0, 0.0, 1.0, 0.0, "C", 0).unwrap(), "A", ((i / per + 1) as isize, None), ("GLY", None)); }
            let mut pdb = PDB::new(); pdb.add_model(m);
            let mut buf = Vec::new();
            save_pdb_raw(&pdb, BufWriter::new(&mut buf), StrictnessLevel::Loose);
            let back = read("pdb", &Opts { level: StrictnessLevel::Loose, discard_h: false, first_only: false, atomic_only: false }, &buf);
            match back { Read::Ok(q, _) => Some((canon(&pdb), canon(&q))), _ => None }
        });
        match res {
            Ok(Some((a, b2))) => if a != b2 { ex.failures.push(Failure::new("sequentially-numbered-structure-does-not-survive-the-loose-round-trip", format!("{n} atoms"))); },
            Ok(None) => ex.failures.push(Failure::new("sequentially-numbered-structure-not-read-back", format!("{n} atoms"))),
            Err(m) => ex.failures.push(Failure::new("round-trip-panicked", m)),
        }
        return ex;
    }
    let lvl = t.next().unwrap().to_string();
    let fits = t.next().unwrap() == "fits";
    let rest_line: String = t.v[t.i..].join(" ");
    let pdb = match guarded(|| build(&mut t)) { Ok(Some(p)) => p, _ => { ex.req = "-".into(); ex.resp = "-".into(); ex.failures.push(Failure::new("harness-could-not-rebuild-structure", "")); return ex; } };
    let level = crate::c07::parse_level(&lvl).unwrap();
    ex.req = format!("pdb write {} {}", lvl, rest_line);
    ex.tags.push(format!("writer:{lvl}"));
    let vp = validate_pdb(&pdb);
    ex.tags.push(format!("validate_pdb:{}", if vp.is_empty() { "clean" } else { "reports" }));
    // "conversely every structure whose values fit the documented PDB column ranges passes that validation"
    if fits && !vp.is_empty() {
        ex.failures.push(Failure::new("in-range-structure-fails-pdb-validation", diags_tok(&vp)));
    }
    let bytes = match guarded(|| { let mut buf = Vec::new(); save_pdb_raw(&pdb, BufWriter::new(&mut buf), level); buf }) {
        Ok(b2) => b2,
        Err(m) => { ex.resp = "PANIC".into(); ex.failures.push(Failure::new("writer-panicked", m).feat("writer_level", &lvl)); return ex; }
    };
    ex.resp = enc_bytes(&bytes);
    if !vp.is_empty() { return ex; } // the round trip is promised only for what PDB validation accepts
    let has_dbref = pdb.chains().any(|c| c.database_reference().is_some());
    let seqres = lvl == "Strict" || has_dbref;
    // values no DBREF / DBREF1 / DBREF2 column can hold (the long form is chosen by the writer for an accession
    // of more than 8, an id of more than 12 characters or a database position above 99999)
    let dbref_beyond = pdb.chains().filter_map(|c| c.database_reference()).any(|d| {
        let long = d.database.acc.len() > 8 || d.database.id.len() > 12 || d.database_position.start > 99_999 || d.database_position.end > 99_999;
        d.database.name.len() > 6 || d.database.id.len() > 20 || d.database.acc.len() > 22
            || (long && (d.database_position.start_insert.is_some() || d.database_position.end_insert.is_some()))
    });
    // the writer documents one default: a unit cell without space group is written as "P 1"
    let mut wpdb = pdb.clone();
    if wpdb.unit_cell.is_some() && wpdb.symmetry.is_none() { wpdb.symmetry = Symmetry::from_index(1); }
    let pdb = wpdb;
    let want = canon(&pdb);
    // The SEQRES records the writer adds are an open finding; so that the rest of such a file is still
    // held to the property, it is also re-read with exactly those lines taken out.
    let stripped: Vec<u8> = bytes.split(|&c| c == b'\n').filter(|l| !l.starts_with(b"SEQRES")).collect::<Vec<_>>().join(&b'\n');
    let variants: Vec<(&[u8], bool)> = if seqres && stripped != bytes { vec![(&bytes, true), (&stripped, false)] } else { vec![(&bytes, seqres)] };
    for (text, seqres) in variants {
    for rl in crate::c07::LEVELS {
        let o = Opts { level: rl, discard_h: false, first_only: false, atomic_only: false };
        let feats = |f: Failure| f.feat("writer_level", &lvl).feat("reader_level", crate::c07::level_name(rl)).feat("seqres_written", seqres).feat("seqres_lines_removed", text.len() != bytes.len()).feat("has_dbref", has_dbref).feat("dbref_beyond_columns", dbref_beyond)
            .feat("identifier_len", pdb.identifier.as_ref().map_or(4, |s| s.len())).feat("long_remark", pdb.remarks().any(|x| x.1.len() >= 69))
            .feat("sg_index", pdb.symmetry.as_ref().map_or(0, |s| s.index())).feat("sg_symbol_len", pdb.symmetry.as_ref().map_or(0, |s| s.herman_mauguin_symbol().len()));
        match read("pdb", &o, text) {
            Read::Panic(m) => ex.failures.push(feats(Failure::new("re-read-panicked", m))),
            Read::Err(d) => {
                let only_seqres = d.iter().filter(|e| e.level().fails(rl)).all(|e| {
                    let d = e.short_description();
                    // the diagnostics only `validate_seqres` produces
                    d.starts_with("SEQRES") || d == "Chain residue invalid" || d == "Multiple residues in SEQRES validation"
                });
                ex.failures.push(feats(Failure::new("written-file-rejected-on-re-read", diags_tok(&d))).feat("rejected_only_by_seqres_diagnostics", only_seqres))
            }
            Read::Ok(q, _) => {
                let mut got = canon(&q);
                // documented: writer level Strict adds default ORIGX / SCALE records
                if lvl == "Strict" {
                    let mut w = pdb.clone();
                    if w.origx.is_none() { w.origx = Some(TransformationMatrix::identity()); }
                    if w.scale.is_none() { w.scale = q.scale.clone(); }
                    if canon(&w) == got { got = want.clone(); }
                }
                if got != want {
                    // is the difference nothing but the atom-less residues inserted from SEQRES?
                    let mut q2 = q.clone();
                    q2.remove_residues_by(|x| x.atom_count() == 0);
                    let mut got2 = canon(&q2);
                    if lvl == "Strict" {
                        let mut w = pdb.clone();
                        if w.origx.is_none() { w.origx = Some(TransformationMatrix::identity()); }
                        if w.scale.is_none() { w.scale = q.scale.clone(); }
                        if canon(&w) == got2 { got2 = want.clone(); }
                    }
                    ex.failures.push(feats(Failure::new("re-read-structure-differs", first_diff(&want, &got))).feat("only_seqres_residues_added", got2 == want));
                } else {
                    // writing the re-read structure reproduces the file byte for byte
                    let mut buf2 = Vec::new();
                    if guarded(|| save_pdb_raw(&q, BufWriter::new(&mut buf2), level)).is_ok() && buf2 != bytes {
                        ex.failures.push(feats(Failure::new("second-write-not-byte-identical", "")));
                    }
                }
            }
        }
    }
    }
    ex
}

fn first_diff(a: &str, b2: &str) -> String {
    let (x, y): (Vec<&str>, Vec<&str>) = (a.split(' ').collect(), b2.split(' ').collect());
    for i in 0..x.len().min(y.len()) { if x[i] != y[i] { return format!("token {}: {:?} vs {:?}", i, &x[i.saturating_sub(3)..(i + 3).min(x.len())], &y[i.saturating_sub(3)..(i + 3).min(y.len())]); } }
    format!("length {} vs {}", x.len(), y.len())
}
