//! C17 — space-group tables are coherent for all 230 groups and survive both formats.
use crate::rng::Rng;
use crate::st::*;
use crate::{guarded, Exec, Failure};
use pdbtbx::*;
use std::io::{BufReader, BufWriter};

fn codes(s: &str) -> String {
    if s.is_empty() { "-".into() } else { s.chars().map(|c| (c as u32).to_string()).collect::<Vec<_>>().join(",") }
}

/// the translator's encoding: 12 base-16 digits, rotation entries as residues mod 12, translations in twelfths
fn enc_op(m: &[[f64; 4]; 3]) -> Option<u64> {
    let mut n: u64 = 0;
    for r in m {
        for (j, v) in r.iter().enumerate() {
            let d = if j < 3 {
                let e = v.round();
                if (v - e).abs() > 1e-9 || e.abs() > 5.0 { return None; }
                ((e as i64 + 12) % 12) as u64
            } else {
                let t = v * 12.0;
                let k = t.round();
                if (t - k).abs() > 1e-7 { return None; }
                (k as i64).rem_euclid(12) as u64
            };
            n = n * 16 + d;
        }
    }
    Some(n)
}

pub fn gen(_tier: &str, _r: &mut Rng) -> Vec<String> {
    let mut out = Vec::new();
    for i in 0..=231usize {
        out.push(format!("c17 sg {i}"));
    }
    // every symbol of the two symbol tables, plus padded and unknown ones
    for i in 1..=230usize {
        if let Some(s) = Symmetry::from_index(i) {
            out.push(format!("c17 new {}", codes(s.herman_mauguin_symbol())));
            out.push(format!("c17 new {}", codes(s.hall_symbol())));
            if i % 7 == 0 { out.push(format!("c17 new {}", codes(&format!("  {} ", s.herman_mauguin_symbol())))); }
        }
    }
    for s in ["", " ", "P 1 1", "p 1", "P1", "X 9 9", "P 2 2", " P 2 2"] {
        out.push(format!("c17 new {}", codes(s)));
    }
    out
}

/// integer view of an operator: rotation entries and translation in twelfths (None when not integral)
fn int_op(m: &[[f64; 4]; 3]) -> Option<([[i64; 3]; 3], [i64; 3])> {
    let mut r = [[0i64; 3]; 3];
    let mut t = [0i64; 3];
    for i in 0..3 {
        for j in 0..3 {
            let e = m[i][j].round();
            if (m[i][j] - e).abs() > 1e-9 { return None; }
            r[i][j] = e as i64;
        }
        let k = (m[i][3] * 12.0).round();
        if (m[i][3] * 12.0 - k).abs() > 1e-7 { return None; }
        t[i] = k as i64;
    }
    Some((r, t))
}

fn one_atom_pdb() -> PDB {
    let mut pdb = PDB::new();
    let mut m = Model::new(1);
    m.add_atom(Atom::new(false, 1, "1", "CA", 1.0, 2.0, 3.0, 1.0, 10.0, "C", 0).unwrap(), "A", (1, None), ("ALA", None));
    pdb.add_model(m);
    pdb
}

pub fn exec(case: &str) -> Exec {
    let mut t = Toks::new(case);
    t.expect("c17").unwrap();
    let op = t.next().unwrap();
    let mut ex = Exec::new(case, "");
    match op {
        "new" => {
            let c = t.next().unwrap();
            let s: String = if c == "-" { String::new() } else { c.split(',').map(|x| char::from_u32(x.parse().unwrap()).unwrap()).collect() };
            match guarded(|| Symmetry::new(&s).map(|x| x.index())) {
                Err(m) => { ex.resp = "PANIC".into(); ex.failures.push(Failure::new("symmetry-new-panicked", m).feat("symbol", &s)); }
                Ok(None) => { ex.resp = "none".into(); ex.tags.push("new:none".into()); }
                Ok(Some(i)) => { ex.resp = i.to_string(); ex.tags.push("new:some".into()); }
            }
        }
        "sg" => {
            let i = t.usize().unwrap();
            let res = guarded(|| Symmetry::from_index(i));
            match res {
                Err(m) => { ex.resp = "PANIC".into(); ex.failures.push(Failure::new("from-index-panicked", m).feat("index", i)); }
                Ok(None) => {
                    ex.resp = "none".into();
                    if (1..=230).contains(&i) { ex.failures.push(Failure::new("group-missing", "").feat("index", i)); }
                }
                Ok(Some(sym)) => {
                    if !(1..=230).contains(&i) { ex.failures.push(Failure::new("group-outside-1-230", "").feat("index", i)); }
                    let r = guarded(|| {
                        let hm = sym.herman_mauguin_symbol().to_string();
                        let hall = sym.hall_symbol().to_string();
                        let ops = sym.transformations();
                        (hm, hall, sym.z(), ops)
                    });
                    let (hm, hall, z, ops) = match r { Ok(x) => x, Err(m) => { ex.resp = "PANIC".into(); ex.failures.push(Failure::new("symmetry-accessor-panicked", m).feat("index", i)); return ex; } };
                    let enc: Vec<String> = ops.iter().map(|o| enc_op(&o.matrix()).map_or("BAD".to_string(), |n| n.to_string())).collect();
                    ex.resp = format!("{} hm={} hall={} z={} ops={}", sym.index(), codes(&hm), codes(&hall), z, enc.join(","));
                    ex.tags.push(format!("z:{z}"));
                    let fail = |ex: &mut Exec, kind: &str, d: String| ex.failures.push(Failure::new(kind, d).feat("index", i));
                    // the statement, on the implementation
                    if sym.index() != i { fail(&mut ex, "index-differs", format!("{}", sym.index())); }
                    match guarded(|| (Symmetry::new(&hm).map(|s| s.index()), Symmetry::new(&hall).map(|s| s.index()))) {
                        Ok((a, b)) => {
                            if a != Some(i) { fail(&mut ex, "hermann-mauguin-symbol-gives-other-group", format!("{:?}", a)); }
                            if b != Some(i) { fail(&mut ex, "hall-symbol-gives-other-group", format!("{:?} for {:?}", b, hall)); }
                        }
                        Err(m) => fail(&mut ex, "symmetry-new-panicked", m),
                    }
                    if z != ops.len() { fail(&mut ex, "z-differs-from-operator-count", format!("{} vs {}", z, ops.len())); }
                    if ops.first().map(|o| o.matrix()) != Some(TransformationMatrix::identity().matrix()) { fail(&mut ex, "identity-not-first", String::new()); }
                    let ints: Vec<Option<([[i64; 3]; 3], [i64; 3])>> = ops.iter().map(|o| int_op(&o.matrix())).collect();
                    if ints.iter().any(|x| x.is_none()) { fail(&mut ex, "operator-not-integral-or-not-twelfths", String::new()); }
                    else {
                        let ints: Vec<([[i64; 3]; 3], [i64; 3])> = ints.into_iter().map(|x| x.unwrap()).collect();
                        let norm = |o: &([[i64; 3]; 3], [i64; 3])| (o.0, [o.1[0].rem_euclid(12), o.1[1].rem_euclid(12), o.1[2].rem_euclid(12)]);
                        let set: std::collections::HashSet<_> = ints.iter().map(norm).collect();
                        if set.len() != ints.len() { fail(&mut ex, "operators-not-distinct", String::new()); }
                        for o in &ints {
                            let r = o.0;
                            if r.iter().flatten().any(|e| e.abs() > 1) { fail(&mut ex, "rotation-entry-outside-minus-one-to-one", String::new()); break; }
                            let det = r[0][0] * (r[1][1] * r[2][2] - r[1][2] * r[2][1]) - r[0][1] * (r[1][0] * r[2][2] - r[1][2] * r[2][0]) + r[0][2] * (r[1][0] * r[2][1] - r[1][1] * r[2][0]);
                            if det.abs() != 1 { fail(&mut ex, "determinant-not-plus-minus-one", format!("{det}")); break; }
                        }
                        'outer: for a in &ints {
                            for b in &ints {
                                let mut r = [[0i64; 3]; 3];
                                let mut tt = [0i64; 3];
                                for x in 0..3 { for y in 0..3 { r[x][y] = (0..3).map(|k| a.0[x][k] * b.0[k][y]).sum(); } tt[x] = ((0..3).map(|k| a.0[x][k] * b.1[k]).sum::<i64>() + a.1[x]).rem_euclid(12); }
                                if !set.contains(&(r, tt)) { fail(&mut ex, "not-closed-under-composition", String::new()); break 'outer; }
                            }
                        }
                    }
                    // absolute operators = fractional with translations scaled by the cell edges
                    for (a, b, c) in [(12.0, 24.0, 36.0), (10.5, 20.25, 99.0), (1.0, 1.0, 1.0)] {
                        let cell = UnitCell::new(a, b, c, 90.0, 90.0, 90.0);
                        let abs = sym.transformations_absolute(&cell);
                        let okk = abs.len() == ops.len() && abs.iter().zip(ops.iter()).all(|(x, y)| {
                            let (x, y) = (x.matrix(), y.matrix());
                            (0..3).all(|r| (0..3).all(|k| x[r][k] == y[r][k])) && x[0][3] == y[0][3] * a && x[1][3] == y[1][3] * b && x[2][3] == y[2][3] * c
                        });
                        if !okk { fail(&mut ex, "absolute-operators-not-scaled-fractional-ones", format!("cell {a} {b} {c}")); break; }
                    }
                    // both formats: written and read back as the same group
                    for fmt in ["pdb", "cif"] {
                        for (li, level) in [StrictnessLevel::Strict, StrictnessLevel::Medium, StrictnessLevel::Loose].into_iter().enumerate() {
                            let r = guarded(|| {
                                let mut pdb = one_atom_pdb();
                                // three cells in turn: an ordinary one, the unit cube, a large one
                                pdb.unit_cell = Some(match (i + li) % 3 { 0 => UnitCell::new(10.0, 20.0, 30.0, 90.0, 90.0, 90.0), 1 => UnitCell::new(1.0, 1.0, 1.0, 90.0, 90.0, 90.0), _ => UnitCell::new(250.5, 99.999, 1000.0, 90.0, 90.0, 90.0) });
                                pdb.symmetry = Some(sym.clone());
                                let mut buf = Vec::new();
                                if fmt == "pdb" { save_pdb_raw(&pdb, BufWriter::new(&mut buf), level); } else { save_mmcif_raw(&pdb, BufWriter::new(&mut buf)); }
                                let f = if fmt == "pdb" { Format::Pdb } else { Format::Mmcif };
                                ReadOptions::default().set_format(f).set_level(StrictnessLevel::Loose).read_raw(BufReader::new(&buf[..])).map(|(p, _)| p.symmetry.map(|s| s.index()))
                            });
                            let got = match r { Ok(Ok(x)) => format!("{:?}", x), Ok(Err(_)) => "read-error".into(), Err(_) => "panic".into() };
                            if got != format!("{:?}", Some(i)) {
                                ex.failures.push(Failure::new(if fmt == "pdb" { "cryst1-round-trip-loses-group" } else { "mmcif-round-trip-loses-group" }, got)
                                    .feat("index", i).feat("format", fmt).feat("symbol_len", hm.len()).feat("z", z));
                                break;
                            }
                        }
                    }
                }
            }
        }
        _ => panic!("unknown c17 op"),
    }
    ex
}
