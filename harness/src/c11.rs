//! C11 — sorting and renumbering give canonical order; binary lookup equals linear scan.
use crate::c09::pools;
use crate::enc::*;
use crate::rng::Rng;
use crate::st::*;
use crate::{budget, guarded, Exec, Failure};
use pdbtbx::*;

const SORTS: &[&str] = &["full", "models", "chains", "residues", "conformers", "atoms"];

pub fn gen(tier: &str, r: &mut Rng) -> Vec<String> {
    let mut out = Vec::new();
    let n = budget(tier, 200, 5000);
    for i in 0..n {
        // duplicate and unordered identifiers; few distinct serials so that ties are common
        let o = GenOpts { max_models: 3, max_chains: 4, max_res: 4, max_conf: 3, max_atoms: if i % 20 == 0 { 40 } else { 5 }, aniso: false, ..GenOpts::default() };
        let mut s = gen_pdb(r, &o);
        let mut k = 0;
        for m in s.models.iter_mut() {
            for c in m.chains.iter_mut() { for x in c.residues.iter_mut() { for f in x.confs.iter_mut() { for a in f.atoms.iter_mut() {
                k += 1;
                a.id = format!("{k}");
                a.serial = r.below(6);
            } } } }
        }
        let (_, back) = realise(&s);
        out.push(format!("c11 sort {} {}", SORTS[i % SORTS.len()], back.line()));
        out.push(format!("c11 renumber {}", back.line()));
    }
    // binary lookup on renumbered structures without empty containers: every present pair and absent ones
    let nf = budget(tier, 120, 3000);
    for i in 0..nf {
        let o = GenOpts { max_models: 2, max_chains: 4, max_res: 5, max_conf: 3, max_atoms: if i % 15 == 0 { 60 } else { 4 }, aniso: false, allow_empty: false, ..GenOpts::default() };
        let s = gen_pdb(r, &o);
        let (mut pdb, _) = realise(&s);
        pdb.renumber();
        let back = SPdb::from_real(&pdb);
        let line = back.line();
        let mut queries: Vec<(usize, Option<String>)> = Vec::new();
        if let Some(m) = back.models.first() {
            for c in &m.chains { for x in &c.residues { for f in &x.confs { for a in &f.atoms {
                queries.push((a.serial, f.alt.clone()));
                if r.chance(1, 6) { queries.push((a.serial, Some("Q".into()))); }
                if r.chance(1, 6) { queries.push((a.serial, if f.alt.is_none() { Some("A".into()) } else { None })); }
            } } } }
        }
        let total = queries.len();
        queries.push((0, None));
        queries.push((total + 5, None));
        queries.push((total + 1, Some("A".into())));
        // keep all when small, a sample otherwise
        let keep = if queries.len() > 40 { 40 } else { queries.len() };
        r.shuffle(&mut queries);
        for (s, a) in queries.iter().take(keep) {
            out.push(format!("c11 find {} {} {}", s, enc_opt(a.as_deref()), line));
        }
        if queries.len() >= 2 {
            let (s1, a1) = &queries[0];
            let (s2, a2) = &queries[1];
            out.push(format!("c11 bond {} {} {} {} {}", s1, enc_opt(a1.as_deref()), s2, enc_opt(a2.as_deref()), line));
        }
    }
    out
}

// reference keys (transcribed from the property: "ordered by its identifier")
fn key_conf(f: &SConf) -> (String, Option<String>) { (f.name.clone(), f.alt.clone()) }
fn key_res(x: &SRes) -> (i64, Option<String>) { (x.serial, x.icode.clone()) }

fn ref_sort(s: &SPdb, variant: &str) -> SPdb {
    let mut s = s.clone();
    let full = variant == "full";
    if full || variant == "models" { s.models.sort_by_key(|m| m.serial); }
    for m in s.models.iter_mut() {
        if full || variant == "chains" { m.chains.sort_by(|a, b| a.id.cmp(&b.id)); }
        for c in m.chains.iter_mut() {
            if full || variant == "residues" { c.residues.sort_by_key(key_res); }
            for x in c.residues.iter_mut() {
                if full || variant == "conformers" { x.confs.sort_by_key(key_conf); }
                for f in x.confs.iter_mut() {
                    if full || variant == "atoms" { f.atoms.sort_by_key(|a| a.serial); }
                }
            }
        }
    }
    s
}

fn tuple(h: &AtomConformerResidueChainModel) -> String {
    format!("{}/{}/{}/{}/{}/{}/{}", enc_str(h.atom().id()), enc_str(h.conformer().name()), enc_opt(h.conformer().alternative_location()),
        h.residue().serial_number(), enc_opt(h.residue().insertion_code()), enc_str(h.chain().id()), h.model().serial_number())
}

pub fn exec(case: &str) -> Exec {
    let mut t = Toks::new(case);
    t.expect("c11").unwrap();
    let op = t.next().unwrap().to_string();
    let mut ex = Exec::new(case, "");
    ex.tags.push(format!("op:{op}"));
    match op.as_str() {
        "sort" => {
            let variant = t.next().unwrap().to_string();
            let s = SPdb::parse(&mut t).expect("structure");
            ex.tags.push(format!("sort:{variant}"));
            let res = guarded(|| {
                let apply = |pdb: &mut PDB, par: bool| match (variant.as_str(), par) {
                    ("full", false) => pdb.full_sort(),
                    ("full", true) => pdb.par_full_sort(),
                    ("models", false) => pdb.sort(),
                    ("models", true) => pdb.par_sort(),
                    ("chains", false) => pdb.models_mut().for_each(|m| m.sort()),
                    ("chains", true) => pdb.models_mut().for_each(|m| m.par_sort()),
                    ("residues", false) => pdb.chains_mut().for_each(|m| m.sort()),
                    ("residues", true) => pdb.chains_mut().for_each(|m| m.par_sort()),
                    ("conformers", false) => pdb.residues_mut().for_each(|m| m.sort()),
                    ("conformers", true) => pdb.residues_mut().for_each(|m| m.par_sort()),
                    ("atoms", false) => pdb.conformers_mut().for_each(|m| m.sort()),
                    (_, _) => pdb.conformers_mut().for_each(|m| m.par_sort()),
                };
                let mut pdb = s.to_real().expect("builds");
                apply(&mut pdb, false);
                let seq = SPdb::from_real(&pdb);
                let mut pars = Vec::new();
                for p in pools() {
                    let mut q = s.to_real().expect("builds");
                    p.install(|| apply(&mut q, true));
                    pars.push(SPdb::from_real(&q));
                }
                (seq, pars)
            });
            match res {
                Err(m) => { ex.resp = "PANIC".into(); ex.failures.push(Failure::new("sort-panicked", m)); }
                Ok((seq, pars)) => {
                    ex.resp = seq.line();
                    let want = ref_sort(&s, &variant);
                    if seq != want {
                        ex.failures.push(Failure::new("sort-not-stable-sorted", format!("variant {variant}")).feat("variant", &variant));
                    }
                    for (i, p) in pars.iter().enumerate() {
                        if *p != seq {
                            ex.failures.push(Failure::new("par-sort-differs", format!("variant {variant} pool {}", crate::c09::POOL_SIZES[i])).feat("variant", &variant));
                            break;
                        }
                    }
                }
            }
        }
        "renumber" => {
            let s = SPdb::parse(&mut t).expect("structure");
            let res = guarded(|| {
                let mut pdb = s.to_real().expect("builds");
                pdb.renumber();
                let once = SPdb::from_real(&pdb);
                pdb.renumber();
                (once, SPdb::from_real(&pdb))
            });
            match res {
                Err(m) => { ex.resp = "PANIC".into(); ex.failures.push(Failure::new("renumber-panicked", m)); }
                Ok((once, twice)) => {
                    ex.resp = once.line();
                    if once != twice { ex.failures.push(Failure::new("renumber-not-idempotent", "")); }
                    // the statement, on the implementation's result
                    for (mi, m) in once.models.iter().enumerate() {
                        if m.serial != mi + 1 { ex.failures.push(Failure::new("renumber-model-number", format!("{} at {}", m.serial, mi))); }
                        let serials: Vec<usize> = m.chains.iter().flat_map(|c| &c.residues).flat_map(|x| &x.confs).flat_map(|f| &f.atoms).map(|a| a.serial).collect();
                        if serials != (1..=serials.len()).collect::<Vec<_>>() { ex.failures.push(Failure::new("renumber-atom-serials", format!("{:?}", &serials[..serials.len().min(8)]))); }
                        let res: Vec<&SRes> = m.chains.iter().flat_map(|c| &c.residues).collect();
                        if res.iter().map(|x| x.serial).collect::<Vec<_>>() != (1..=res.len() as i64).collect::<Vec<_>>() { ex.failures.push(Failure::new("renumber-residue-numbers", "")); }
                        for x in &res {
                            if x.icode.is_some() { ex.failures.push(Failure::new("renumber-insertion-code-kept", "")); }
                            if x.confs.len() <= 1 {
                                if x.confs.iter().any(|f| f.alt.is_some()) { ex.failures.push(Failure::new("renumber-altloc-kept", "")); }
                            } else {
                                let alts: Vec<Option<String>> = x.confs.iter().map(|f| f.alt.clone()).collect();
                                let mut d = alts.clone();
                                d.sort();
                                d.dedup();
                                if d.len() != alts.len() || alts.iter().any(|a| a.as_ref().map_or(true, |s| !s.chars().all(|c| c.is_ascii_uppercase()))) {
                                    ex.failures.push(Failure::new("renumber-altloc-not-distinct-letter-codes", format!("{:?}", alts)));
                                }
                            }
                        }
                        let ids: Vec<&String> = m.chains.iter().map(|c| &c.id).collect();
                        let mut d = ids.clone();
                        d.sort();
                        d.dedup();
                        if d.len() != ids.len() || ids.iter().any(|s| !s.chars().all(|c| c.is_ascii_uppercase())) {
                            ex.failures.push(Failure::new("renumber-chain-ids-not-distinct-letter-codes", format!("{:?}", ids)));
                        }
                    }
                    // nothing else changed: shapes and names
                    let shape = |p: &SPdb| -> Vec<(usize, Vec<(usize, Vec<(String, Vec<String>)>)>)> {
                        p.models.iter().map(|m| (m.chains.len(), m.chains.iter().map(|c| (c.residues.len(), c.residues.iter().flat_map(|x| &x.confs).map(|f| (f.name.clone(), f.atoms.iter().map(|a| a.id.clone()).collect())).collect())).collect())).collect()
                    };
                    if shape(&once) != shape(&s) { ex.failures.push(Failure::new("renumber-changed-shape-or-names", "")); }
                }
            }
        }
        "find" | "bond" => {
            let mut qs = Vec::new();
            let nq = if op == "find" { 1 } else { 2 };
            for _ in 0..nq {
                let serial = t.usize().unwrap();
                let alt = t.opt().unwrap();
                qs.push((serial, alt));
            }
            let s = SPdb::parse(&mut t).expect("structure");
            let res = guarded(|| {
                let mut pdb = s.to_real().expect("builds");
                let mut found = Vec::new();
                let mut linear = Vec::new();
                let mut found_mut = Vec::new();
                for (serial, alt) in &qs {
                    found.push(pdb.binary_find_atom(*serial, alt.as_deref()).map(|h| tuple(&h)));
                    linear.push(pdb.models().next().and_then(|m| {
                        m.atoms_with_hierarchy().find(|h| h.atom().serial_number() == *serial && h.conformer().alternative_location() == alt.as_deref())
                            .map(|h| { let h = h.extend_model(m); h })
                    }));
                    found_mut.push(pdb.binary_find_atom_mut(*serial, alt.as_deref()).map(|h| tuple(&h.without_mut())));
                }
                let linear: Vec<Option<String>> = linear;
                let bond = if op == "bond" {
                    let r = pdb.add_bond((qs[0].0, qs[0].1.as_deref()), (qs[1].0, qs[1].1.as_deref()), Bond::Covalent);
                    let b: Vec<(String, String)> = pdb.bonds().map(|(a, b, _)| (a.id().to_string(), b.id().to_string())).collect();
                    Some((r.is_some(), b))
                } else { None };
                (found, linear, found_mut, bond)
            });
            match res {
                Err(m) => { ex.resp = "PANIC".into(); ex.failures.push(Failure::new("lookup-panicked", m)); }
                Ok((found, linear, found_mut, bond)) => {
                    if found != linear {
                        ex.failures.push(Failure::new("binary-lookup-differs-from-linear-scan", format!("{:?} vs {:?}", found, linear)));
                    }
                    if found_mut != found {
                        ex.failures.push(Failure::new("binary-lookup-mut-differs", format!("{:?} vs {:?}", found_mut, found)));
                    }
                    ex.tags.push(format!("found:{}", found.iter().filter(|f| f.is_some()).count()));
                    if op == "find" {
                        ex.resp = found[0].clone().unwrap_or_else(|| "none".into());
                    } else {
                        let (ok, bonds) = bond.unwrap();
                        let id_of = |t: &Option<String>| t.as_ref().map(|s| dec_str(s.split('/').next().unwrap()).unwrap());
                        match (id_of(&linear[0]), id_of(&linear[1])) {
                            (Some(a), Some(b)) => {
                                ex.resp = format!("{},{}", enc_str(&a), enc_str(&b));
                                if !ok || bonds != vec![(a.clone(), b.clone())] {
                                    ex.failures.push(Failure::new("add-bond-connects-wrong-atoms", format!("{:?}", bonds)));
                                }
                            }
                            _ => {
                                ex.resp = "none".into();
                                if ok || !bonds.is_empty() {
                                    ex.failures.push(Failure::new("add-bond-on-absent-atom-changed-structure", format!("{:?}", bonds)));
                                }
                            }
                        }
                    }
                }
            }
        }
        _ => panic!("unknown c11 op"),
    }
    ex
}

trait ExtendModel<'a> {
    fn extend_model(self, m: &'a Model) -> String;
}
impl<'a> ExtendModel<'a> for AtomConformerResidueChain<'a> {
    fn extend_model(self, m: &'a Model) -> String {
        format!("{}/{}/{}/{}/{}/{}/{}", enc_str(self.atom().id()), enc_str(self.conformer().name()), enc_opt(self.conformer().alternative_location()),
            self.residue().serial_number(), enc_opt(self.residue().insertion_code()), enc_str(self.chain().id()), m.serial_number())
    }
}
