//! C08 — adding atoms builds a hierarchy with one child per identifier, in order.
use crate::enc::*;
use crate::rng::Rng;
use crate::st::*;
use crate::{budget, guarded, Exec, Failure};
use pdbtbx::*;

#[derive(Clone, Debug)]
pub struct Op {
    pub chain: String,
    pub rnum: i64,
    pub icode: Option<String>,
    pub name: String,
    pub alt: Option<String>,
    pub atom: SAtom,
}

fn op_toks(level: &str, o: &Op, out: &mut Vec<String>) {
    out.push(if level == "model" { enc_str(&o.chain) } else { "-".into() });
    if level == "residue" {
        out.push("-".into());
        out.push("-".into());
    } else {
        out.push(o.rnum.to_string());
        out.push(enc_opt(o.icode.as_deref()));
    }
    out.push(enc_str(&o.name));
    out.push(enc_opt(o.alt.as_deref()));
    o.atom.toks(out);
}

fn parse_op(t: &mut Toks) -> Option<Op> {
    let ch = t.next()?;
    let chain = if ch == "-" { String::new() } else { dec_str(ch)? };
    let rn = t.next()?;
    let rnum = if rn == "-" { 0 } else { rn.parse().ok()? };
    let ic = t.next()?;
    let icode = if ic == "-" { None } else { dec_opt(ic)? };
    let name = t.str()?;
    let alt = t.opt()?;
    let atom = SAtom::parse(t)?;
    Some(Op { chain, rnum, icode, name, alt, atom })
}

fn line(level: &str, ops: &[Op]) -> String {
    let mut o = vec!["c08".to_string(), "hist".into(), level.into(), ops.len().to_string()];
    for op in ops {
        op_toks(level, op, &mut o);
    }
    o.join(" ")
}

fn mk_atom(i: usize) -> SAtom {
    // atoms are told apart by their unique id; constructors leave every field as given
    let a = SAtom { het: false, serial: i + 1, id: format!("a{i}"), name: "CA".into(), x: 1000 * i as i64, y: 0, z: 0, occ: 1_000_000, b: 0, el: 6, charge: 0, atf: None };
    SAtom::from_real(&a.to_real().unwrap())
}

const X_CHAINS: &[&str] = &["A", "B "];
const X_RES: &[(i64, Option<&str>)] = &[(1, None), (1, Some("a")), (1, Some("A"))];
const X_CONF: &[(&str, Option<&str>)] = &[("ALA", None), ("ala", Some(" ")), ("ALA", Some("b")), ("GLY ", Some("B"))];

const R_CHAINS: &[&str] = &["A", " A", "A ", "a", "B", "AB", "ab", " AB ", "0", "x y"];
const R_ICODES: &[Option<&str>] = &[None, None, Some("A"), Some("a"), Some(" A"), Some("B"), Some("ab"), Some("AB")];
const R_NAMES: &[&str] = &["ALA", "ala", " ALA", "Ala ", "GLY", "HOH", "hoh", "0AF", "0af", "U K"];
const R_ALTS: &[Option<&str>] = &[None, None, Some("A"), Some("a"), Some(" "), Some(" a "), Some("B"), Some("b"), Some("AB"), Some("")];

pub fn gen(tier: &str, r: &mut Rng) -> Vec<String> {
    let mut out = Vec::new();
    // exhaustive short histories over the small alphabet (all of them in thorough, a sample in quick)
    let mut alphabet = Vec::new();
    for c in X_CHAINS { for rs in X_RES { for cf in X_CONF { alphabet.push((*c, *rs, *cf)); } } }
    let n = alphabet.len();
    let keep_one_in = if tier == "thorough" { 1 } else { 100 };
    for len in 1..=4usize {
        let total = n.pow(len as u32);
        for idx in 0..total {
            if len == 4 && keep_one_in > 1 && r.below(keep_one_in) != 0 { continue; }
            let mut ops = Vec::new();
            let mut x = idx;
            for i in 0..len {
                let (c, rs, cf) = alphabet[x % n];
                x /= n;
                ops.push(Op { chain: c.to_string(), rnum: rs.0, icode: rs.1.map(|s| s.to_string()), name: cf.0.to_string(), alt: cf.1.map(|s| s.to_string()), atom: mk_atom(i) });
            }
            let level = ["model", "chain", "residue"][idx % 3];
            out.push(line(level, &ops));
        }
    }
    // random long histories
    let n_rand = budget(tier, 300, 6000);
    for i in 0..n_rand {
        let len = if r.chance(1, 10) { 50 + r.below(350) } else { 1 + r.below(40) };
        let mut ops = Vec::new();
        // a small pool per history so that identifiers repeat
        let pool_c: Vec<&str> = (0..1 + r.below(3)).map(|_| *r.pick(R_CHAINS)).collect();
        let pool_r: Vec<(i64, Option<&str>)> = (0..1 + r.below(4)).map(|_| (*r.pick(&[-1000i64, -1, 0, 1, 2, 9999, 10000]), *r.pick(R_ICODES))).collect();
        let pool_f: Vec<(&str, Option<&str>)> = (0..1 + r.below(4)).map(|_| (*r.pick(R_NAMES), *r.pick(R_ALTS))).collect();
        for j in 0..len {
            let c = *r.pick(&pool_c);
            let rs = *r.pick(&pool_r);
            let cf = *r.pick(&pool_f);
            ops.push(Op { chain: c.to_string(), rnum: rs.0, icode: rs.1.map(|s| s.to_string()), name: cf.0.to_string(), alt: cf.1.map(|s| s.to_string()), atom: mk_atom(j) });
        }
        out.push(line(["model", "chain", "residue"][i % 3], &ops));
    }
    // chains with many residues: an atom for a residue far back must still find it (however the lookup is organised)
    for k in 0..budget(tier, 4, 40) {
        let n = [300usize, 260, 520, 1030][k % 4];
        let mut ops = Vec::new();
        for j in 0..n { ops.push(Op { chain: "A".to_string(), rnum: j as i64, icode: None, name: "ALA".to_string(), alt: None, atom: mk_atom(j) }); }
        for j in 0..8 { let back = r.below(n); ops.push(Op { chain: "A".to_string(), rnum: back as i64, icode: None, name: "ALA".to_string(), alt: None, atom: mk_atom(n + j) }); }
        ops.push(Op { chain: "A".to_string(), rnum: 0, icode: None, name: "ALA".to_string(), alt: None, atom: mk_atom(n + 9) });
        out.push(line(["model", "chain"][k % 2], &ops));
    }
    // identifiers the constructors refuse (the guard of the theorems): the call must panic in both
    for (c, ic, nm) in [("", None, "ALA"), ("A", Some(" "), "ALA"), ("A", None, "  "), ("A\u{e9}", None, "ALA"), ("A", Some("\u{e9}"), "ALA"), ("A", None, "AL\u{7f}")] {
        let ops = vec![Op { chain: c.to_string(), rnum: 1, icode: ic.map(|s: &str| s.to_string()), name: nm.to_string(), alt: None, atom: mk_atom(0) }];
        out.push(line("model", &ops));
    }
    out
}

/// normalisation as the property states it ("trimmed, case-normalised form in which they are stored")
fn norm_up(s: &str) -> String { s.trim().to_uppercase() }
fn norm_opt_up(s: &Option<String>) -> Option<String> {
    s.as_ref().and_then(|x| if x.trim().is_empty() { None } else { Some(norm_up(x)) })
}

type Path = (String, i64, Option<String>, String, Option<String>);

fn check_children(level: &str, ops: &[Op], m: &Model) -> Vec<Failure> {
    let mut f = Vec::new();
    let path = |o: &Op| -> Path {
        (
            if level == "model" { o.chain.trim().to_string() } else { String::new() },
            if level == "residue" { 0 } else { o.rnum },
            if level == "residue" { None } else { norm_opt_up(&o.icode) },
            norm_up(&o.name),
            norm_opt_up(&o.alt),
        )
    };
    // expected nested first-appearance grouping
    let mut want: Vec<(String, Vec<((i64, Option<String>), Vec<((String, Option<String>), Vec<String>)>)>)> = Vec::new();
    for o in ops {
        let p = path(o);
        let ci = match want.iter().position(|c| c.0 == p.0) { Some(i) => i, None => { want.push((p.0.clone(), Vec::new())); want.len() - 1 } };
        let rs = &mut want[ci].1;
        let ri = match rs.iter().position(|x| x.0 == (p.1, p.2.clone())) { Some(i) => i, None => { rs.push(((p.1, p.2.clone()), Vec::new())); rs.len() - 1 } };
        let fs = &mut rs[ri].1;
        let fi = match fs.iter().position(|x| x.0 == (p.3.clone(), p.4.clone())) { Some(i) => i, None => { fs.push(((p.3.clone(), p.4.clone()), Vec::new())); fs.len() - 1 } };
        fs[fi].1.push(o.atom.id.clone());
    }
    let got: Vec<(String, Vec<((i64, Option<String>), Vec<((String, Option<String>), Vec<String>)>)>)> = m
        .chains()
        .map(|c| {
            (
                if level == "model" { c.id().to_string() } else { String::new() },
                c.residues()
                    .map(|x| {
                        (
                            if level == "residue" { (0, None) } else { (x.serial_number() as i64, x.insertion_code().map(|s| s.to_string())) },
                            x.conformers().map(|cf| ((cf.name().to_string(), cf.alternative_location().map(|s| s.to_string())), cf.atoms().map(|a| a.id().to_string()).collect())).collect(),
                        )
                    })
                    .collect(),
            )
        })
        .collect();
    // (1) one child per distinct identifier
    for c in &got {
        let mut seen = Vec::new();
        for x in &c.1 {
            if seen.contains(&&x.0) { f.push(Failure::new("duplicate-residue-identifier", format!("{:?}", x.0)).feat("level", level)); }
            seen.push(&x.0);
            let mut seen_f = Vec::new();
            for cf in &x.1 {
                if seen_f.contains(&&cf.0) { f.push(Failure::new("duplicate-conformer-identifier", format!("{:?}", cf.0)).feat("level", level)); }
                seen_f.push(&cf.0);
            }
        }
    }
    let ids: Vec<&String> = got.iter().map(|c| &c.0).collect();
    for (i, c) in ids.iter().enumerate() {
        if ids[..i].contains(c) { f.push(Failure::new("duplicate-chain-identifier", c.to_string()).feat("level", level)); }
    }
    // (2)+(3) order of first insertion, atoms under their identifiers in insertion order
    if f.is_empty() && got != want {
        f.push(Failure::new("grouping-differs-from-first-appearance-grouping", format!("got {} chains, want {}", got.len(), want.len())).feat("level", level));
    }
    f
}

pub fn exec(case: &str) -> Exec {
    let mut t = Toks::new(case);
    t.expect("c08").unwrap();
    t.expect("hist").unwrap();
    let level = t.next().unwrap().to_string();
    let n = t.usize().unwrap();
    let ops: Vec<Op> = (0..n).map(|_| parse_op(&mut t).expect("op")).collect();
    let mut ex = Exec::new(case, "");
    ex.tags.push(format!("level:{level}"));
    ex.tags.push(format!("len:{}", if n <= 4 { n.to_string() } else if n <= 40 { "5-40".into() } else { ">40".into() }));
    let res = guarded(|| {
        // the container under test is always wrapped into a model so that one dump routine serves all levels
        match level.as_str() {
            "model" => {
                let mut m = Model::new(1);
                for o in &ops {
                    m.add_atom(o.atom.to_real().unwrap(), &o.chain, (o.rnum as isize, o.icode.as_deref()), (&o.name, o.alt.as_deref()));
                }
                let mut toks = Vec::new();
                SModel::from_real(&m).toks(&mut toks);
                (toks.join(" "), m)
            }
            "chain" => {
                let mut c = Chain::new("X").unwrap();
                for o in &ops {
                    c.add_atom(o.atom.to_real().unwrap(), (o.rnum as isize, o.icode.as_deref()), (&o.name, o.alt.as_deref()));
                }
                let mut toks = Vec::new();
                SChain::from_real(&c).toks(&mut toks);
                let mut m = Model::new(1);
                m.add_chain(c);
                (toks.join(" "), m)
            }
            _ => {
                let mut x = Residue::new(7, None, None).unwrap();
                for o in &ops {
                    x.add_atom(o.atom.to_real().unwrap(), (&o.name, o.alt.as_deref()));
                }
                let mut toks = Vec::new();
                SRes::from_real(&x).toks(&mut toks);
                let mut c = Chain::new("X").unwrap();
                c.add_residue(x);
                let mut m = Model::new(1);
                m.add_chain(c);
                (toks.join(" "), m)
            }
        }
    });
    match res {
        Err(_) => {
            ex.resp = "PANIC".into();
            ex.tags.push("panic".into());
            // valid identifiers must never panic (the theorems' guard is exactly "constructors accept")
            let valid = ops.iter().all(|o| {
                prepare_identifier_uppercase(&o.name).is_some()
                    && (level == "residue" || o.icode.as_ref().map_or(true, |i| prepare_identifier_uppercase(i).is_some()))
                    && (level != "model" || prepare_identifier(o.chain.trim()).is_some())
            });
            if valid {
                ex.failures.push(Failure::new("add-atom-panicked-on-valid-identifiers", "").feat("level", &level));
            }
        }
        Ok((dump, m)) => {
            ex.resp = dump;
            for f in check_children(&level, &ops, &m) {
                ex.failures.push(f);
            }
        }
    }
    ex
}
