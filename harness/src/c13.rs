//! C13 — transformations obey their algebra and move structures atom by atom.
use crate::c09::pools;
use crate::enc::*;
use crate::rng::Rng;
use crate::st::*;
use crate::{budget, guarded, Exec, Failure};
use pdbtbx::*;

const U: i64 = 125_000; // 1/8 in micro-units

/// matrix tokens: rotation entries as integers, translations in micro-units (multiples of 1/8)
fn gen_mat(r: &mut Rng, big: bool) -> [i64; 12] {
    let mut m = [0i64; 12];
    for i in 0..3 {
        for j in 0..4 {
            m[4 * i + j] = if j == 3 { r.range(-512, 512) * U } else if big { r.range(-8, 8) } else { r.range(-2, 2) };
        }
    }
    m
}
/// matrices near the identity: the identity itself, pure translations (also all-negative), axis flips, projections,
/// shrinking, one stray off-diagonal entry — what a short cut "nothing to do for the identity" must not swallow
fn gen_mat_near_identity(r: &mut Rng) -> [i64; 12] {
    let mut m = [0i64; 12];
    let negative_only = r.chance(1, 2);
    for i in 0..3 {
        for j in 0..4 {
            m[4 * i + j] = if j == 3 {
                match r.below(4) { 0 | 1 => 0, 2 => -r.range(1, 64) * U, _ => if negative_only { -r.range(1, 8) * U } else { r.range(1, 64) * U } }
            } else if i == j {
                *r.pick(&[1i64, 1, 1, 0, -1, if negative_only { 1 } else { 2 }])
            } else {
                *r.pick(&[0i64, 0, 0, 0, -1, if negative_only { 0 } else { 1 }])
            };
        }
    }
    m
}
fn to_real(m: &[i64; 12]) -> TransformationMatrix {
    let f = |i: usize, j: usize| if j == 3 { undec6(m[4 * i + j]) } else { m[4 * i + j] as f64 };
    TransformationMatrix::from_matrix([[f(0, 0), f(0, 1), f(0, 2), f(0, 3)], [f(1, 0), f(1, 1), f(1, 2), f(1, 3)], [f(2, 0), f(2, 1), f(2, 2), f(2, 3)]])
}
/// back to tokens; None when an entry is not representable (rotation not integral)
fn from_real(t: &TransformationMatrix) -> Option<[i64; 12]> {
    let m = t.matrix();
    let mut o = [0i64; 12];
    for i in 0..3 {
        for j in 0..4 {
            let v = m[i][j];
            if j == 3 {
                let k = v * 8.0;
                if k != k.round() { return None; }
                o[4 * i + j] = (k.round() as i64) * U;
            } else {
                if v != v.round() { return None; }
                o[4 * i + j] = v as i64;
            }
        }
    }
    Some(o)
}
fn toks(m: &[i64; 12]) -> String { m.iter().map(|x| x.to_string()).collect::<Vec<_>>().join(" ") }

pub fn gen(tier: &str, r: &mut Rng) -> Vec<String> {
    let mut out = vec!["c13 ctor identity".to_string()];
    let n = budget(tier, 20_000, 1_000_000) / 4;
    for _ in 0..n {
        let m = gen_mat(r, true);
        out.push(format!("c13 apply {} {} {} {}", toks(&m), r.range(-512, 512) * U, r.range(-512, 512) * U, r.range(-512, 512) * U));
    }
    for _ in 0..n {
        let k = 2 + r.below(5);
        let ms: Vec<String> = (0..k).map(|_| toks(&gen_mat(r, false))).collect();
        out.push(format!("c13 combine {} {}", k, ms.join(" ")));
    }
    for _ in 0..n / 10 {
        out.push(format!("c13 ctor translation {} {} {}", r.range(-512, 512) * U, r.range(-512, 512) * U, r.range(-512, 512) * U));
        out.push(format!("c13 ctor magnify {}", r.range(-8, 8)));
        out.push(format!("c13 ctor scale {} {} {}", r.range(-8, 8), r.range(-8, 8), r.range(-8, 8)));
        // rotations: the angle is a test input, the model receives symbolic stand-ins for (sin, cos)
        let deg = r.range(-3600, 3600);
        out.push(format!("c13 rot {} {}", r.pick(&["x", "y", "z"]), deg));
        out.push(format!("c13 multr {} {} {} {}", toks(&gen_mat(r, true)), r.range(-8, 8), r.range(-8, 8), r.range(-8, 8)));
    }
    let ns = budget(tier, 100, 3000);
    for i in 0..ns {
        let o = GenOpts { max_models: 2, max_chains: 3, max_res: 3, max_conf: 2, max_atoms: [4, 7, 9, 13, 30][i % 5], aniso: i % 2 == 0, coord_step: U, ..GenOpts::default() };
        let mut s = gen_pdb(r, &o);
        for m in s.models.iter_mut() { for c in m.chains.iter_mut() { for x in c.residues.iter_mut() { for f in x.confs.iter_mut() { for a in f.atoms.iter_mut() {
            a.x = r.range(-512, 512) * U; a.y = r.range(-512, 512) * U; a.z = r.range(-512, 512) * U;
        } } } } }
        let (_, back) = realise(&s);
        for level in ["pdb", "model", "chain", "residue", "conformer", "atom"] {
            let mut p = [0usize; 5];
            if !back.models.is_empty() {
                p[0] = r.below(back.models.len());
                let m = &back.models[p[0]];
                if !m.chains.is_empty() {
                    p[1] = r.below(m.chains.len());
                    let c = &m.chains[p[1]];
                    if !c.residues.is_empty() {
                        p[2] = r.below(c.residues.len());
                        let x = &c.residues[p[2]];
                        if !x.confs.is_empty() {
                            p[3] = r.below(x.confs.len());
                            let f = &x.confs[p[3]];
                            if !f.atoms.is_empty() { p[4] = r.below(f.atoms.len()); }
                        }
                    }
                }
            }
            // the parallel twins split their children over the pool: at conformer level aim at the conformer with
            // the most atoms (sizes 7, 9, 13, 30 leave a remainder for every pool size) in two cases out of three
            if level == "conformer" && i % 3 != 0 {
                let mut best = (0usize, p);
                for (mi, m) in back.models.iter().enumerate() { for (ci, c) in m.chains.iter().enumerate() { for (xi, x) in c.residues.iter().enumerate() { for (fi, f) in x.confs.iter().enumerate() {
                    if f.atoms.len() > best.0 { best = (f.atoms.len(), [mi, ci, xi, fi, 0]); }
                } } } }
                p = best.1;
            }
            let mat = if r.chance(1, 3) { gen_mat_near_identity(r) } else { gen_mat(r, true) };
            out.push(format!("c13 struct {} {} {} {} {} {} {} {}", level, p[0], p[1], p[2], p[3], p[4], toks(&mat), back.line()));
        }
    }
    out
}

fn parse_mat(t: &mut Toks) -> [i64; 12] {
    let mut m = [0i64; 12];
    for v in m.iter_mut() { *v = t.i64().unwrap(); }
    m
}

pub fn exec(case: &str) -> Exec {
    let mut t = Toks::new(case);
    t.expect("c13").unwrap();
    let op = t.next().unwrap().to_string();
    let mut ex = Exec::new(case, "");
    ex.tags.push(format!("op:{op}"));
    match op.as_str() {
        "apply" => {
            let m = parse_mat(&mut t);
            let p = (t.i64().unwrap(), t.i64().unwrap(), t.i64().unwrap());
            let tm = to_real(&m);
            let pf = (undec6(p.0), undec6(p.1), undec6(p.2));
            let q = tm.apply(pf);
            ex.resp = format!("{} {} {}", dec6(q.0), dec6(q.1), dec6(q.2));
            // oracle in exact integer arithmetic (the statement of `apply`): q = R p + t
            let want: Vec<i64> = (0..3).map(|i| m[4 * i] * p.0 + m[4 * i + 1] * p.1 + m[4 * i + 2] * p.2 + m[4 * i + 3]).collect();
            if vec![dec6(q.0), dec6(q.1), dec6(q.2)] != want || undec6(want[0]) != q.0 || undec6(want[1]) != q.1 || undec6(want[2]) != q.2 {
                ex.failures.push(Failure::new("apply-differs-from-matrix-vector-product", format!("{:?} vs {:?}", q, want)));
            }
            // identity leaves every position unchanged
            if TransformationMatrix::identity().apply(pf) != pf {
                ex.failures.push(Failure::new("identity-moves-a-point", format!("{:?}", pf)));
            }
        }
        "combine" => {
            let n = t.usize().unwrap();
            let ms: Vec<[i64; 12]> = (0..n).map(|_| parse_mat(&mut t)).collect();
            let tms: Vec<TransformationMatrix> = ms.iter().map(to_real).collect();
            let mut acc = tms[0].clone();
            for x in &tms[1..] { acc = acc.combine(x); }
            match from_real(&acc) {
                Some(o) => ex.resp = toks(&o),
                None => ex.resp = "INEXACT".into(),
            }
            // applying the combination = applying the parts in the stated order, on a few points
            for p in [(1.0, 0.0, 0.0), (0.0, 1.0, 0.0), (0.0, 0.0, 1.0), (0.125, -2.5, 7.0)] {
                let mut q = p;
                for x in &tms { q = x.apply(q); }
                if acc.apply(p) != q {
                    ex.failures.push(Failure::new("combine-differs-from-sequential-application", format!("{:?}: {:?} vs {:?}", p, acc.apply(p), q)).feat("factors", n));
                    break;
                }
            }
        }
        "ctor" => {
            let name = t.next().unwrap();
            let m = match name {
                "identity" => TransformationMatrix::identity(),
                "translation" => TransformationMatrix::translation(undec6(t.i64().unwrap()), undec6(t.i64().unwrap()), undec6(t.i64().unwrap())),
                "magnify" => TransformationMatrix::magnify(t.i64().unwrap() as f64),
                "scale" => TransformationMatrix::scale(t.i64().unwrap() as f64, t.i64().unwrap() as f64, t.i64().unwrap() as f64),
                _ => panic!("ctor"),
            };
            ex.resp = from_real(&m).map_or("INEXACT".into(), |o| toks(&o));
            if name == "translation" {
                let p = (1.5, -2.25, 3.0);
                let q = m.apply(p);
                let mm = m.matrix();
                if q != (p.0 + mm[0][3], p.1 + mm[1][3], p.2 + mm[2][3]) { ex.failures.push(Failure::new("translation-does-not-shift-by-the-vector", format!("{:?}", q))); }
            }
        }
        "rot" => {
            let axis = t.next().unwrap().to_string();
            let deg = t.i64().unwrap() as f64 / 10.0;
            let m = match axis.as_str() { "x" => TransformationMatrix::rotation_x(deg), "y" => TransformationMatrix::rotation_y(deg), _ => TransformationMatrix::rotation_z(deg) };
            let (s, c) = deg.to_radians().sin_cos();
            // symbolic layout: every entry is one of 0, 1, c, -c, s, -s; stand-ins S=3, C=5 go to the model
            let mut o = [0i64; 12];
            let mut ok = true;
            for i in 0..3 { for j in 0..4 {
                let v = m.matrix()[i][j];
                let diag = i == j;
                o[4 * i + j] = if v == c && diag && !(axis == "x" && i == 0 || axis == "y" && i == 1 || axis == "z" && i == 2) { 5 }
                    else if v == 1.0 && diag { 1 }
                    else if v == 0.0 && !(v == s) { 0 }
                    else if v == s && !diag { 3 } else if v == -s && !diag { -3 }
                    else if v == 0.0 { 0 }
                    else { ok = false; 99 };
            } }
            // at angles where sine or cosine coincide with 0, 1 or each other the entries cannot be told apart by
            // value; the symbolic layout is then not sent to the model (the numeric checks below still run)
            let degenerate = s == 0.0 || c == 0.0 || s.abs() == 1.0 || c.abs() == 1.0 || s.abs() == c.abs();
            if degenerate {
                ex.req = "-".into();
                ex.resp = "-".into();
                ex.tags.push("rotation:degenerate-angle".into());
            } else {
                ex.req = format!("c13 ctor rot{} 3 5", axis);
                ex.resp = if ok { toks(&o) } else { "UNRECOGNISED-ENTRY".into() };
            }
            // isometry on the implementation (tolerance: rounding is not modelled)
            let (p, q) = ((1.0, 2.0, 3.0), (-4.0, 0.5, 2.0));
            let d = |a: (f64, f64, f64), b: (f64, f64, f64)| ((a.0 - b.0).powi(2) + (a.1 - b.1).powi(2) + (a.2 - b.2).powi(2)).sqrt();
            if (d(m.apply(p), m.apply(q)) - d(p, q)).abs() > 1e-9 * d(p, q) {
                ex.failures.push(Failure::new("rotation-changes-a-distance", format!("{} {}", axis, deg)));
            }
        }
        "multr" => {
            let m = parse_mat(&mut t);
            let f = (t.i64().unwrap(), t.i64().unwrap(), t.i64().unwrap());
            let mut tm = to_real(&m);
            tm.multiply_translation((f.0 as f64, f.1 as f64, f.2 as f64));
            ex.req = format!("c13 multr {} {} {} {}", toks(&m), f.0, f.1, f.2);
            ex.resp = from_real(&tm).map_or("INEXACT".into(), |o| toks(&o));
        }
        "struct" => {
            let level = t.next().unwrap().to_string();
            let p: Vec<usize> = (0..5).map(|_| t.usize().unwrap()).collect();
            let m = parse_mat(&mut t);
            let s = SPdb::parse(&mut t).expect("structure");
            let tm = to_real(&m);
            let run = |par: Option<&rayon::ThreadPool>| -> Option<SPdb> {
                let mut pdb = s.to_real().unwrap();
                match (level.as_str(), par) {
                    ("pdb", None) => pdb.apply_transformation(&tm),
                    ("pdb", Some(pl)) => pl.install(|| pdb.par_apply_transformation(&tm)),
                    ("model", None) => pdb.model_mut(p[0])?.apply_transformation(&tm),
                    ("model", Some(pl)) => { let x = pdb.model_mut(p[0])?; pl.install(|| x.par_apply_transformation(&tm)) }
                    ("chain", None) => pdb.model_mut(p[0])?.chain_mut(p[1])?.apply_transformation(&tm),
                    ("chain", Some(pl)) => { let x = pdb.model_mut(p[0])?.chain_mut(p[1])?; pl.install(|| x.par_apply_transformation(&tm)) }
                    ("residue", None) => pdb.model_mut(p[0])?.chain_mut(p[1])?.residue_mut(p[2])?.apply_transformation(&tm),
                    ("residue", Some(pl)) => { let x = pdb.model_mut(p[0])?.chain_mut(p[1])?.residue_mut(p[2])?; pl.install(|| x.par_apply_transformation(&tm)) }
                    ("conformer", None) => pdb.model_mut(p[0])?.chain_mut(p[1])?.residue_mut(p[2])?.conformer_mut(p[3])?.apply_transformation(&tm),
                    ("conformer", Some(pl)) => { let x = pdb.model_mut(p[0])?.chain_mut(p[1])?.residue_mut(p[2])?.conformer_mut(p[3])?; pl.install(|| x.par_apply_transformation(&tm)) }
                    (_, _) => pdb.model_mut(p[0])?.chain_mut(p[1])?.residue_mut(p[2])?.conformer_mut(p[3])?.atom_mut(p[4])?.apply_transformation(&tm),
                }
                Some(SPdb::from_real(&pdb))
            };
            match guarded(|| run(None)) {
                Err(msg) => { ex.resp = "PANIC".into(); ex.failures.push(Failure::new("apply-transformation-panicked", msg).feat("level", &level)); }
                Ok(None) => { ex.resp = "BAD-REQUEST".into(); ex.tags.push("no-container".into()); }
                Ok(Some(after)) => {
                    ex.resp = after.line();
                    ex.tags.push(format!("level:{level}"));
                    // "touches nothing else": with the positions put aside, the structure is what it was (identifiers,
                    // occupancies, B-factors, charges, anisotropic tensors, order)
                    let mask = |q: &SPdb| { let mut q = q.clone(); for m in q.models.iter_mut() { for c in m.chains.iter_mut() { for x in c.residues.iter_mut() { for f in x.confs.iter_mut() { for a in f.atoms.iter_mut() { a.x = 0; a.y = 0; a.z = 0; } } } } } q };
                    if mask(&after) != mask(&SPdb::from_real(&s.to_real().unwrap())) {
                        ex.failures.push(Failure::new("apply-transformation-changes-more-than-positions", "").feat("level", &level).feat("has_tensor", s.models.iter().any(|m| m.chains.iter().any(|c| c.residues.iter().any(|x| x.confs.iter().any(|f| f.atoms.iter().any(|a| a.atf.is_some())))))));
                    }
                    for pl in pools() {
                        if let Ok(Some(q)) = guarded(|| run(Some(pl))) {
                            if q != after { ex.failures.push(Failure::new("parallel-apply-differs", "").feat("level", &level)); break; }
                        }
                    }
                }
            }
        }
        _ => panic!("unknown c13 op"),
    }
    ex
}
