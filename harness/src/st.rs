//! Plain-data mirror of the hierarchy (same shape as PdbModel/Hier.lean), conversion from and to
//! the real pdbtbx structures through the public API, and the token (de)serialisation.
use crate::enc::*;
use crate::rng::Rng;
use pdbtbx::*;

#[derive(Clone, Debug, PartialEq)]
pub struct SAtom {
    pub het: bool,
    pub serial: usize,
    pub id: String,
    pub name: String,
    pub x: i64,
    pub y: i64,
    pub z: i64,
    pub occ: i64,
    pub b: i64,
    pub el: usize,
    pub charge: i64,
    pub atf: Option<[i64; 9]>,
}
#[derive(Clone, Debug, PartialEq)]
pub struct SConf {
    pub name: String,
    pub alt: Option<String>,
    pub modif: Option<(String, String)>,
    pub atoms: Vec<SAtom>,
}
#[derive(Clone, Debug, PartialEq)]
pub struct SRes {
    pub serial: i64,
    pub icode: Option<String>,
    pub confs: Vec<SConf>,
}
#[derive(Clone, Debug, PartialEq)]
pub struct SChain {
    pub id: String,
    pub residues: Vec<SRes>,
}
#[derive(Clone, Debug, PartialEq)]
pub struct SModel {
    pub serial: usize,
    pub chains: Vec<SChain>,
}
#[derive(Clone, Debug, PartialEq, Default)]
pub struct SPdb {
    pub models: Vec<SModel>,
}

impl SAtom {
    pub fn from_real(a: &Atom) -> SAtom {
        SAtom {
            het: a.hetero(),
            serial: a.serial_number(),
            id: a.id().to_string(),
            name: a.name().to_string(),
            x: dec6(a.x()),
            y: dec6(a.y()),
            z: dec6(a.z()),
            occ: dec6(a.occupancy()),
            b: dec6(a.b_factor()),
            el: a.element().map_or(0, |e| e.atomic_number()),
            charge: a.charge() as i64,
            atf: a.anisotropic_temperature_factors().map(|m| {
                let mut o = [0i64; 9];
                for i in 0..3 {
                    for j in 0..3 {
                        o[3 * i + j] = dec6(m[i][j]);
                    }
                }
                o
            }),
        }
    }
    /// None when `Atom::new` refuses
    pub fn to_real(&self) -> Option<Atom> {
        let sym = if self.el == 0 { "" } else { Element::new(self.el)?.symbol() };
        let mut a = Atom::new(
            self.het,
            self.serial,
            &self.id,
            &self.name,
            undec6(self.x),
            undec6(self.y),
            undec6(self.z),
            undec6(self.occ),
            undec6(self.b),
            sym,
            self.charge as isize,
        )?;
        if let Some(t) = self.atf {
            let mut m = [[0.0; 3]; 3];
            for i in 0..3 {
                for j in 0..3 {
                    m[i][j] = undec6(t[3 * i + j]);
                }
            }
            a.set_anisotropic_temperature_factors(m);
        }
        Some(a)
    }
    pub fn toks(&self, o: &mut Vec<String>) {
        o.push("A".into());
        o.push(b(self.het).into());
        o.push(self.serial.to_string());
        o.push(enc_str(&self.id));
        o.push(enc_str(&self.name));
        for v in [self.x, self.y, self.z, self.occ, self.b] {
            o.push(v.to_string());
        }
        o.push(self.el.to_string());
        o.push(self.charge.to_string());
        o.push(match self.atf {
            None => "~".into(),
            Some(t) => t.iter().map(|v| v.to_string()).collect::<Vec<_>>().join(","),
        });
    }
    pub fn parse(t: &mut Toks) -> Option<SAtom> {
        t.expect("A")?;
        Some(SAtom {
            het: t.bool()?,
            serial: t.usize()?,
            id: t.str()?,
            name: t.str()?,
            x: t.i64()?,
            y: t.i64()?,
            z: t.i64()?,
            occ: t.i64()?,
            b: t.i64()?,
            el: t.usize()?,
            charge: t.i64()?,
            atf: {
                let s = t.next()?;
                if s == "~" {
                    None
                } else {
                    let v: Vec<i64> = s.split(',').map(|x| x.parse().ok()).collect::<Option<_>>()?;
                    if v.len() != 9 {
                        return None;
                    }
                    let mut o = [0i64; 9];
                    o.copy_from_slice(&v);
                    Some(o)
                }
            },
        })
    }
}

impl SConf {
    pub fn from_real(c: &Conformer) -> SConf {
        SConf {
            name: c.name().to_string(),
            alt: c.alternative_location().map(|s| s.to_string()),
            modif: c.modification().cloned(),
            atoms: c.atoms().map(SAtom::from_real).collect(),
        }
    }
    pub fn to_real(&self) -> Option<Conformer> {
        let mut c = Conformer::new(&self.name, self.alt.as_deref(), None)?;
        if let Some(m) = &self.modif {
            c.set_modification(m.clone()).ok()?;
        }
        for a in &self.atoms {
            c.add_atom(a.to_real()?);
        }
        Some(c)
    }
    pub fn toks(&self, o: &mut Vec<String>) {
        o.push("F".into());
        o.push(enc_str(&self.name));
        o.push(enc_opt(self.alt.as_deref()));
        o.push(match &self.modif {
            None => "~".into(),
            Some((a, b)) => format!("{}/{}", enc_str(a), enc_str(b)),
        });
        o.push(self.atoms.len().to_string());
        for a in &self.atoms {
            a.toks(o);
        }
    }
    pub fn parse(t: &mut Toks) -> Option<SConf> {
        t.expect("F")?;
        let name = t.str()?;
        let alt = t.opt()?;
        let m = t.next()?;
        let modif = if m == "~" {
            None
        } else {
            let (a, b) = m.split_once('/')?;
            Some((dec_str(a)?, dec_str(b)?))
        };
        let n = t.usize()?;
        let mut atoms = Vec::new();
        for _ in 0..n {
            atoms.push(SAtom::parse(t)?);
        }
        Some(SConf { name, alt, modif, atoms })
    }
}

impl SRes {
    pub fn from_real(r: &Residue) -> SRes {
        SRes {
            serial: r.serial_number() as i64,
            icode: r.insertion_code().map(|s| s.to_string()),
            confs: r.conformers().map(SConf::from_real).collect(),
        }
    }
    pub fn to_real(&self) -> Option<Residue> {
        let mut r = Residue::new(self.serial as isize, self.icode.as_deref(), None)?;
        for c in &self.confs {
            r.add_conformer(c.to_real()?);
        }
        Some(r)
    }
    pub fn toks(&self, o: &mut Vec<String>) {
        o.push("R".into());
        o.push(self.serial.to_string());
        o.push(enc_opt(self.icode.as_deref()));
        o.push(self.confs.len().to_string());
        for c in &self.confs {
            c.toks(o);
        }
    }
    pub fn parse(t: &mut Toks) -> Option<SRes> {
        t.expect("R")?;
        let serial = t.i64()?;
        let icode = t.opt()?;
        let n = t.usize()?;
        let mut confs = Vec::new();
        for _ in 0..n {
            confs.push(SConf::parse(t)?);
        }
        Some(SRes { serial, icode, confs })
    }
}

impl SChain {
    pub fn from_real(c: &Chain) -> SChain {
        SChain { id: c.id().to_string(), residues: c.residues().map(SRes::from_real).collect() }
    }
    pub fn to_real(&self) -> Option<Chain> {
        let mut c = Chain::new(&self.id)?;
        for r in &self.residues {
            c.add_residue(r.to_real()?);
        }
        Some(c)
    }
    pub fn toks(&self, o: &mut Vec<String>) {
        o.push("C".into());
        o.push(enc_str(&self.id));
        o.push(self.residues.len().to_string());
        for r in &self.residues {
            r.toks(o);
        }
    }
    pub fn parse(t: &mut Toks) -> Option<SChain> {
        t.expect("C")?;
        let id = t.str()?;
        let n = t.usize()?;
        let mut residues = Vec::new();
        for _ in 0..n {
            residues.push(SRes::parse(t)?);
        }
        Some(SChain { id, residues })
    }
}

impl SModel {
    pub fn from_real(m: &Model) -> SModel {
        SModel { serial: m.serial_number(), chains: m.chains().map(SChain::from_real).collect() }
    }
    pub fn to_real(&self) -> Option<Model> {
        let mut m = Model::new(self.serial);
        for c in &self.chains {
            m.add_chain(c.to_real()?);
        }
        Some(m)
    }
    pub fn toks(&self, o: &mut Vec<String>) {
        o.push("M".into());
        o.push(self.serial.to_string());
        o.push(self.chains.len().to_string());
        for c in &self.chains {
            c.toks(o);
        }
    }
    pub fn parse(t: &mut Toks) -> Option<SModel> {
        t.expect("M")?;
        let serial = t.usize()?;
        let n = t.usize()?;
        let mut chains = Vec::new();
        for _ in 0..n {
            chains.push(SChain::parse(t)?);
        }
        Some(SModel { serial, chains })
    }
}

impl SPdb {
    pub fn from_real(p: &PDB) -> SPdb {
        SPdb { models: p.models().map(SModel::from_real).collect() }
    }
    pub fn to_real(&self) -> Option<PDB> {
        let mut p = PDB::new();
        for m in &self.models {
            p.add_model(m.to_real()?);
        }
        Some(p)
    }
    pub fn toks(&self, o: &mut Vec<String>) {
        o.push("P".into());
        o.push(self.models.len().to_string());
        for m in &self.models {
            m.toks(o);
        }
    }
    pub fn line(&self) -> String {
        let mut o = Vec::new();
        self.toks(&mut o);
        o.join(" ")
    }
    pub fn parse(t: &mut Toks) -> Option<SPdb> {
        t.expect("P")?;
        let n = t.usize()?;
        let mut models = Vec::new();
        for _ in 0..n {
            models.push(SModel::parse(t)?);
        }
        Some(SPdb { models })
    }
    pub fn atom_count(&self) -> usize {
        self.models
            .iter()
            .flat_map(|m| &m.chains)
            .flat_map(|c| &c.residues)
            .flat_map(|r| &r.confs)
            .map(|c| c.atoms.len())
            .sum()
    }
}

pub fn dump(p: &PDB) -> String {
    SPdb::from_real(p).line()
}

/// token cursor
pub struct Toks<'a> {
    pub v: Vec<&'a str>,
    pub i: usize,
}
impl<'a> Toks<'a> {
    pub fn new(line: &'a str) -> Toks<'a> {
        Toks { v: line.split(' ').filter(|s| !s.is_empty()).collect(), i: 0 }
    }
    pub fn next(&mut self) -> Option<&'a str> {
        let r = self.v.get(self.i).copied();
        self.i += 1;
        r
    }
    pub fn peek(&self) -> Option<&'a str> {
        self.v.get(self.i).copied()
    }
    pub fn done(&self) -> bool {
        self.i >= self.v.len()
    }
    pub fn expect(&mut self, s: &str) -> Option<()> {
        if self.next()? == s {
            Some(())
        } else {
            None
        }
    }
    pub fn usize(&mut self) -> Option<usize> {
        self.next()?.parse().ok()
    }
    pub fn i64(&mut self) -> Option<i64> {
        self.next()?.parse().ok()
    }
    pub fn bool(&mut self) -> Option<bool> {
        match self.next()? {
            "1" => Some(true),
            "0" => Some(false),
            _ => None,
        }
    }
    pub fn str(&mut self) -> Option<String> {
        dec_str(self.next()?)
    }
    pub fn opt(&mut self) -> Option<Option<String>> {
        dec_opt(self.next()?)
    }
}

// ---------------------------------------------------------------------------------------------
// Generators (the "structure generator" of DESIGN §7)

pub const CHAIN_IDS: &[&str] = &["A", "B", "a", "AB", "0", "C", "b", "Z9"];
pub const ICODES: &[Option<&str>] = &[None, None, None, Some("A"), Some("B"), Some("AB")];
pub const CONF_NAMES: &[&str] = &["ALA", "GLY", "HOH", "SER", "0AF", "UNK", "LYS", "MG"];
pub const ALTS: &[Option<&str>] = &[None, None, Some("A"), Some("B"), Some("C")];
pub const ATOM_NAMES: &[&str] =
    &["N", "CA", "C", "O", "CB", "OG", "H", "HA", "0C1", "XX", "MG", "SE", "OXT", "CG", "D1"];
pub const RES_NUMS: &[i64] = &[-1000, -999, -5, 0, 1, 2, 3, 10, 9999, 10000];

#[derive(Clone, Copy)]
pub struct GenOpts {
    pub max_models: usize,
    pub max_chains: usize,
    pub max_res: usize,
    pub max_conf: usize,
    pub max_atoms: usize,
    pub allow_empty: bool,
    pub dup_ids: bool,
    pub aniso: bool,
    /// decimals actually used by float fields: values are k * 10^(6-decimals) in micro-units
    pub coord_step: i64,
}
impl Default for GenOpts {
    fn default() -> Self {
        GenOpts {
            max_models: 3,
            max_chains: 4,
            max_res: 5,
            max_conf: 3,
            max_atoms: 5,
            allow_empty: true,
            dup_ids: true,
            aniso: true,
            coord_step: 1000,
        }
    }
}

pub struct Counter {
    pub serial: usize,
    pub id: usize,
}

pub fn gen_atom(r: &mut Rng, o: &GenOpts, cnt: &mut Counter) -> SAtom {
    cnt.serial += 1 + if r.chance(1, 8) { r.below(5) } else { 0 };
    cnt.id += 1;
    let name = r.pick(ATOM_NAMES).to_string();
    let el = match r.below(6) {
        0 => 0,
        1 => *r.pick(&[1usize, 6, 7, 8, 12, 16, 26, 34, 118]),
        _ => 0, // inferred from the name by Atom::new where possible
    };
    let atf = if o.aniso && r.chance(1, 6) {
        let mut t = [0i64; 9];
        for v in t.iter_mut() {
            *v = r.range(-9999, 9999) * 100;
        }
        Some(t)
    } else {
        None
    };
    SAtom {
        het: r.chance(1, 4),
        serial: if r.chance(1, 20) { *r.pick(&[0usize, 99999, 100000]) } else { cnt.serial },
        id: cnt.id.to_string(),
        name,
        x: r.range(-9999, 9999) * o.coord_step,
        y: r.range(-9999, 9999) * o.coord_step,
        z: r.range(-9999, 9999) * o.coord_step,
        occ: r.range(0, 100) * 10_000,
        b: r.range(0, 9999) * 10_000,
        el,
        charge: if r.chance(1, 5) { r.range(-9, 9) } else { 0 },
        atf,
    }
}

pub fn gen_size(r: &mut Rng, max: usize, allow_empty: bool) -> usize {
    let n = r.size(max);
    if n == 0 && !allow_empty {
        1
    } else {
        n
    }
}

pub fn gen_conf(r: &mut Rng, o: &GenOpts, cnt: &mut Counter) -> SConf {
    let n = gen_size(r, o.max_atoms, o.allow_empty);
    SConf {
        name: r.pick(CONF_NAMES).to_string(),
        alt: r.pick(ALTS).map(|s| s.to_string()),
        modif: None,
        atoms: (0..n).map(|_| gen_atom(r, o, cnt)).collect(),
    }
}

pub fn gen_res(r: &mut Rng, o: &GenOpts, cnt: &mut Counter, num: i64) -> SRes {
    let n = gen_size(r, o.max_conf, o.allow_empty);
    let mut confs: Vec<SConf> = Vec::new();
    for _ in 0..n {
        let c = gen_conf(r, o, cnt);
        if !o.dup_ids && confs.iter().any(|d| d.name == c.name && d.alt == c.alt) {
            continue;
        }
        confs.push(c);
    }
    if confs.is_empty() && !o.allow_empty {
        confs.push(gen_conf(r, o, cnt));
    }
    SRes { serial: num, icode: r.pick(ICODES).map(|s| s.to_string()), confs }
}

pub fn gen_chain(r: &mut Rng, o: &GenOpts, cnt: &mut Counter, id: &str) -> SChain {
    let n = gen_size(r, o.max_res, o.allow_empty);
    let mut residues: Vec<SRes> = Vec::new();
    let mut run = r.range(-3, 20);
    for _ in 0..n {
        // runs of residues that share a number and differ in the insertion code (5, 5B, 5A …), in any order
        let num = if !residues.is_empty() && r.chance(1, 4) { residues[r.below(residues.len())].serial } else if r.chance(1, 5) { *r.pick(RES_NUMS) } else { run };
        run += 1;
        let res = gen_res(r, o, cnt, num);
        if !o.dup_ids && residues.iter().any(|d| d.serial == res.serial && d.icode == res.icode) {
            continue;
        }
        residues.push(res);
    }
    if residues.is_empty() && !o.allow_empty {
        residues.push(gen_res(r, o, cnt, run));
    }
    SChain { id: id.to_string(), residues }
}

pub fn gen_model(r: &mut Rng, o: &GenOpts, cnt: &mut Counter, serial: usize) -> SModel {
    let n = gen_size(r, o.max_chains, o.allow_empty);
    let mut chains: Vec<SChain> = Vec::new();
    cnt.serial = 0;
    for _ in 0..n {
        let id = r.pick(CHAIN_IDS).to_string();
        if !o.dup_ids && chains.iter().any(|c| c.id == id) {
            continue;
        }
        chains.push(gen_chain(r, o, cnt, &id));
    }
    if chains.is_empty() && !o.allow_empty {
        chains.push(gen_chain(r, o, cnt, "A"));
    }
    SModel { serial, chains }
}

pub fn gen_pdb(r: &mut Rng, o: &GenOpts) -> SPdb {
    let n = gen_size(r, o.max_models, o.allow_empty);
    let mut cnt = Counter { serial: 0, id: 0 };
    let mut models = Vec::new();
    for i in 0..n {
        let serial = if r.chance(1, 6) { r.below(12) } else { i + 1 };
        models.push(gen_model(r, o, &mut cnt, serial));
    }
    SPdb { models }
}

/// Build the real structure and read it back, so that the request reflects what pdbtbx holds
/// (constructors normalise identifiers and infer elements).
pub fn realise(s: &SPdb) -> (PDB, SPdb) {
    let p = s.to_real().expect("generator produced a structure the constructors refuse");
    let back = SPdb::from_real(&p);
    (p, back)
}
