//! C14 — spatial and geometric queries equal a brute-force computation.
use crate::enc::*;
use crate::rng::Rng;
use crate::st::*;
use crate::{budget, guarded, Exec, Failure};
use pdbtbx::*;

const U: i64 = 125_000; // 1/8 Å in micro-units

fn atom_at(r: &mut Rng, id: usize, x: i64, y: i64, z: i64) -> SAtom {
    let a = SAtom { het: false, serial: id, id: id.to_string(), name: r.pick(&["CA", "N", "O", "XX", "H", "MG", "FE"]).to_string(), x, y, z, occ: 1_000_000, b: 0,
        el: *r.pick(&[0usize, 1, 6, 7, 8, 12, 26, 100, 118]), charge: 0, atf: None };
    SAtom::from_real(&a.to_real().unwrap())
}
fn atok(a: &SAtom) -> String { let mut v = Vec::new(); a.toks(&mut v); v.join(" ") }

fn gen_struct(r: &mut Rng, max_atoms: usize, spread: i64) -> SPdb {
    let o = GenOpts { max_models: 2, max_chains: 4, max_res: 3, max_conf: 2, max_atoms, aniso: false, ..GenOpts::default() };
    let mut s = gen_pdb(r, &o);
    let mut k = 0;
    let mut pool: Vec<(i64, i64, i64)> = Vec::new();
    for m in s.models.iter_mut() { for c in m.chains.iter_mut() { for x in c.residues.iter_mut() { for f in x.confs.iter_mut() { for a in f.atoms.iter_mut() {
        k += 1;
        a.id = k.to_string();
        // coincident atoms now and then
        let p = if !pool.is_empty() && r.chance(1, 10) { *r.pick(&pool) } else { (r.range(-spread, spread) * U, r.range(-spread, spread) * U, r.range(-spread, spread) * U) };
        pool.push(p);
        a.x = p.0; a.y = p.1; a.z = p.2;
    } } } } }
    realise(&s).1
}

pub fn gen(tier: &str, r: &mut Rng) -> Vec<String> {
    let mut out = vec!["c14 bbox P 0".to_string(), "c14 bbox P 1 M 1 0".to_string()];
    let n = budget(tier, 300, 8000);
    for i in 0..n {
        let s = gen_struct(r, if i % 10 == 0 { 40 } else { 5 }, if i % 3 == 0 { 8 } else { 200 });
        out.push(format!("c14 bbox {}", s.line()));
        // cut-offs on and off the attained distances; ties avoided by half-steps (d² is an integer in 1/64 Å²,
        // a cut-off of (2k+1)/16 Å can never equal a distance whose square is n/64)
        let cut = (2 * r.range(0, 400) + 1) * U / 2;
        out.push(format!("c14 contacts {} {}", cut, s.line()));
        if i % 5 == 0 { out.push(format!("c14 contacts {} {}", *r.pick(&[0i64, -8 * U]), s.line())); }
        // two chains that touch in exactly one place: an atom of one chain is put k/8 A next to an atom of another chain
        // (often one far from that chain's centre), the cut-off half a step above that distance - a shortcut that judges
        // chains by a box or a sphere around them must not lose the pair
        {
            let mut s2 = s.clone();
            if let Some(m) = s2.models.first_mut() {
                let idx: Vec<usize> = (0..m.chains.len()).filter(|&c| m.chains[c].residues.iter().any(|x| x.confs.iter().any(|f| !f.atoms.is_empty()))).collect();
                if idx.len() >= 2 {
                    let (ca, cb) = (idx[0], idx[idx.len() - 1]);
                    let atoms_a: Vec<(i64, i64, i64)> = m.chains[ca].residues.iter().flat_map(|x| x.confs.iter()).flat_map(|f| f.atoms.iter()).map(|a| (a.x, a.y, a.z)).collect();
                    // the atom of A farthest from A's centre
                    let n = atoms_a.len() as i64;
                    let cen = (atoms_a.iter().map(|p| p.0).sum::<i64>() / n, atoms_a.iter().map(|p| p.1).sum::<i64>() / n, atoms_a.iter().map(|p| p.2).sum::<i64>() / n);
                    let far = *atoms_a.iter().max_by_key(|p| (p.0 - cen.0).abs().max((p.1 - cen.1).abs()).max((p.2 - cen.2).abs())).unwrap();
                    let k = 1 + r.below(24) as i64;
                    let axis = r.below(3);
                    let sign = if r.chance(1, 2) { 1 } else { -1 };
                    if let Some(b0) = m.chains[cb].residues.iter_mut().flat_map(|x| x.confs.iter_mut()).flat_map(|f| f.atoms.iter_mut()).next() {
                        b0.x = far.0 + if axis == 0 { sign * k * U } else { 0 };
                        b0.y = far.1 + if axis == 1 { sign * k * U } else { 0 };
                        b0.z = far.2 + if axis == 2 { sign * k * U } else { 0 };
                    }
                    let s2 = realise(&s2).1;
                    out.push(format!("c14 contacts {} {}", (2 * k + 1) * U / 2, s2.line()));
                }
            }
        }
        // R*-tree clause: decided by the tie alone
        let q: Vec<String> = (0..budget(tier, 8, 40)).map(|_| format!("{} {} {} {}", r.range(-220, 220) * U, r.range(-220, 220) * U, r.range(-220, 220) * U, (2 * r.range(0, 300) + 1) * U / 2)).collect();
        // queries right next to an atom with radii below and around one ångström (a bound that mixes up a distance
        // with its square is wrong exactly there), and nearest-neighbour queries closer than 1 Å to their answer
        let mut q = q;
        let pos: Vec<(i64, i64, i64)> = s.models.iter().flat_map(|m| m.chains.iter()).flat_map(|c| c.residues.iter()).flat_map(|x| x.confs.iter()).flat_map(|f| f.atoms.iter()).map(|a| (a.x, a.y, a.z)).collect();
        if !pos.is_empty() {
            for _ in 0..budget(tier, 6, 30) {
                let c = *r.pick(&pos);
                let axis = r.below(4);
                let off = |r: &mut Rng, k: usize| if axis == 3 || axis == k { r.range(-9, 9) * U } else { 0 };
                q.push(format!("{} {} {} {}", c.0 + off(r, 0), c.1 + off(r, 1), c.2 + off(r, 2), (2 * r.range(0, 12) + 1) * U / 2));
            }
        }
        out.push(format!("c14 rtree {} ; {}", s.line(), q.join(" ")));
    }
    let np = budget(tier, 3000, 100_000);
    for i in 0..np {
        let (px, py, pz) = (r.range(-400, 400) * U, r.range(-400, 400) * U, r.range(-400, 400) * U);
        let a = atom_at(r, 1, px, py, pz);
        let near = r.chance(1, 2);
        let d = |r: &mut Rng| if near { r.range(-30, 30) * U } else { r.range(-400, 400) * U };
        let (qx, qy, qz) = (a.x + d(r), a.y + d(r), a.z + d(r));
        let b = atom_at(r, 2, qx, qy, qz);
        out.push(format!("c14 d2 {} {}", atok(&a), atok(&b)));
        // orthogonal cell containing both atoms: edges in eighths, at least the coordinate differences
        let e = |r: &mut Rng, p: i64, q: i64| ((p - q).abs() / U + r.range(0, 40)).max(1);
        let (ea, eb, ec) = (e(r, a.x, b.x), e(r, a.y, b.y), e(r, a.z, b.z));
        out.push(format!("c14 wrap {} {} {} {} {}", ea, eb, ec, atok(&a), atok(&b)));
        if i % 2 == 0 {
            // overlap predicates: positions on a 1/1000 Å grid shifted by half a step so that the distance can
            // never equal a sum of two-decimal radii
            let mut a2 = a.clone(); let mut b2 = b.clone();
            a2.x = r.range(-3000, 3000) * 1000 + 500; a2.y = 0; a2.z = 0;
            b2.x = a2.x + r.range(-4000, 4000) * 1000; b2.y = r.range(0, 2) * 1_000_000; b2.z = 0;
            let kind = *r.pick(&["plain", "bound", "wrap", "boundwrap"]);
            let cell = (r.range(2, 12) * 1_000_000, 50_000_000, 50_000_000);
            out.push(format!("c14 overlaps {} {} {} {} {} {}", kind, cell.0, cell.1, cell.2, atok(&a2), atok(&b2)));
        }
    }
    out
}

fn e8(v: f64) -> i64 { (v * 8.0).round() as i64 }

pub fn exec(case: &str) -> Exec {
    let mut t = Toks::new(case);
    t.expect("c14").unwrap();
    let op = t.next().unwrap().to_string();
    let mut ex = Exec::new(case, "");
    ex.tags.push(format!("op:{op}"));
    match op.as_str() {
        "d2" | "wrap" => {
            let cell = if op == "wrap" { Some((t.i64().unwrap(), t.i64().unwrap(), t.i64().unwrap())) } else { None };
            let a = SAtom::parse(&mut t).unwrap().to_real().unwrap();
            let b = SAtom::parse(&mut t).unwrap().to_real().unwrap();
            let d = match cell {
                None => a.distance(&b),
                Some((x, y, z)) => a.distance_wrapping(&b, &UnitCell::new(x as f64 / 8.0, y as f64 / 8.0, z as f64 / 8.0, 90.0, 90.0, 90.0)),
            };
            ex.resp = format!("{}", (d * d * 64.0).round() as i64);
            if op == "d2" {
                if a.distance(&b) != b.distance(&a) { ex.failures.push(Failure::new("distance-not-symmetric", "")); }
                let want = (e8(b.x()) - e8(a.x())).pow(2) + (e8(b.y()) - e8(a.y())).pow(2) + (e8(b.z()) - e8(a.z())).pow(2);
                if (d * d * 64.0).round() as i64 != want { ex.failures.push(Failure::new("distance-not-euclidean", format!("{} vs {}", d * d * 64.0, want))); }
            } else {
                let (cx, cy, cz) = cell.unwrap();
                let mut best = i64::MAX;
                for i in -1..=1 { for j in -1..=1 { for k in -1..=1 {
                    let v = (e8(b.x()) + i * cx - e8(a.x())).pow(2) + (e8(b.y()) + j * cy - e8(a.y())).pow(2) + (e8(b.z()) + k * cz - e8(a.z())).pow(2);
                    best = best.min(v);
                } } }
                if (d * d * 64.0).round() as i64 != best { ex.failures.push(Failure::new("wrapped-distance-not-minimum-over-images", format!("{} vs {}", d * d * 64.0, best))); }
            }
        }
        "bbox" => {
            let s = SPdb::parse(&mut t).unwrap();
            let pdb = s.to_real().unwrap();
            let (lo, hi) = pdb.bounding_box();
            let atoms: Vec<&Atom> = pdb.atoms().collect();
            if atoms.is_empty() {
                ex.resp = "EMPTY".into();
                if lo != (f64::MAX, f64::MAX, f64::MAX) || hi != (f64::MIN, f64::MIN, f64::MIN) { ex.resp = "NONEMPTY-BOX".into(); }
            } else {
                ex.resp = format!("{} {} {} {} {} {}", dec6(lo.0), dec6(lo.1), dec6(lo.2), dec6(hi.0), dec6(hi.1), dec6(hi.2));
                let mn = |f: fn(&Atom) -> f64| atoms.iter().map(|a| f(a)).fold(f64::INFINITY, f64::min);
                let mx = |f: fn(&Atom) -> f64| atoms.iter().map(|a| f(a)).fold(f64::NEG_INFINITY, f64::max);
                let want = ((mn(|a| a.x()), mn(|a| a.y()), mn(|a| a.z())), (mx(|a| a.x()), mx(|a| a.y()), mx(|a| a.z())));
                if (lo, hi) != want { ex.failures.push(Failure::new("bounding-box-not-tightest", format!("{:?} vs {:?}", (lo, hi), want))); }
            }
        }
        "contacts" => {
            let cut = t.i64().unwrap();
            let s = SPdb::parse(&mut t).unwrap();
            let pdb = s.to_real().unwrap();
            let m = pdb.chains_in_contact(undec6(cut));
            let mut entries: Vec<String> = m.iter().map(|(k, v)| { let mut v: Vec<String> = v.iter().map(|x| enc_str(x)).collect(); v.sort(); format!("{}:{}", enc_str(k), v.join(",")) }).collect();
            entries.sort();
            ex.resp = if entries.is_empty() { "-".into() } else { entries.join(" ") };
            ex.req = format!("c14 contacts {} {}", cut / U * 1 + if cut % U != 0 { 0 } else { 0 }, s.line());
            // the model works in eighths: pass the cut-off as 2*cut in sixteenths is not integral, so compare squares: d2*4 < (2c)^2
            ex.req = format!("c14 contacts {} {}", cut, s.line());
            // brute force, straight from the statement
            let chains: Vec<&Chain> = pdb.chains().collect();
            let mut want: std::collections::BTreeMap<String, std::collections::BTreeSet<String>> = Default::default();
            for c1 in &chains { for c2 in &chains {
                if c1.id() == c2.id() { continue; }
                let close = c1.atoms().any(|a| c2.atoms().any(|b| {
                    let d2 = (dec6(a.x()) - dec6(b.x())).pow(2) + (dec6(a.y()) - dec6(b.y())).pow(2) + (dec6(a.z()) - dec6(b.z())).pow(2);
                    cut > 0 && (d2 as i128) < (cut as i128) * (cut as i128)
                }));
                if close { want.entry(c1.id().to_string()).or_default().insert(c2.id().to_string()); }
            } }
            let got: std::collections::BTreeMap<String, std::collections::BTreeSet<String>> = m.iter().map(|(k, v)| (k.clone(), v.iter().cloned().collect())).collect();
            if got != want { ex.failures.push(Failure::new("chains-in-contact-differs-from-brute-force", format!("{:?} vs {:?}", got, want))); }
            for (a, bs) in &got { for b in bs { if !got.get(b).map_or(false, |x| x.contains(a)) { ex.failures.push(Failure::new("chains-in-contact-not-symmetric", format!("{a} {b}"))); } } }
            if m.values().any(|v| { let mut d = v.clone(); d.sort(); d.dedup(); d.len() != v.len() }) { ex.failures.push(Failure::new("chains-in-contact-lists-a-chain-twice", "")); }
        }
        "overlaps" => {
            let kind = t.next().unwrap().to_string();
            let cell = (t.i64().unwrap(), t.i64().unwrap(), t.i64().unwrap());
            let a = SAtom::parse(&mut t).unwrap().to_real().unwrap();
            let b = SAtom::parse(&mut t).unwrap().to_real().unwrap();
            let uc = UnitCell::new(undec6(cell.0), undec6(cell.1), undec6(cell.2), 90.0, 90.0, 90.0);
            let r = match kind.as_str() { "plain" => a.overlaps(&b), "bound" => a.overlaps_bound(&b), "wrap" => a.overlaps_wrapping(&b, &uc), _ => a.overlaps_bound_wrapping(&b, &uc) };
            ex.resp = match r { None => "none".into(), Some(v) => b_(v) };
            ex.tags.push(format!("overlaps:{}", ex.resp));
            // agreement with the radii table through the public accessors
            let rad = |x: &Atom| x.element().and_then(|e| if kind == "plain" || kind == "wrap" { e.atomic_radius().unbound } else { Some(e.atomic_radius().covalent_single) });
            let d = if kind == "plain" || kind == "bound" { a.distance(&b) } else { a.distance_wrapping(&b, &uc) };
            let want = match (rad(&a), rad(&b)) { (Some(x), Some(y)) => Some(d <= x + y), _ => None };
            if r != want { ex.failures.push(Failure::new("overlap-predicate-disagrees-with-radii-table", format!("{:?} vs {:?}", r, want)).feat("kind", &kind)); }
        }
        "rtree" => {
            let s = SPdb::parse(&mut t).unwrap();
            t.expect(";").unwrap();
            let mut queries = Vec::new();
            while !t.done() { queries.push((t.i64().unwrap(), t.i64().unwrap(), t.i64().unwrap(), t.i64().unwrap())); }
            ex.req = "-".into();
            ex.resp = "-".into();
            let res = guarded(|| {
                let pdb = s.to_real().unwrap();
                let mut fails = Vec::new();
                let tree = pdb.create_atom_rtree();
                let htree = pdb.create_hierarchy_rtree();
                let all: Vec<&Atom> = pdb.atoms().collect();
                if tree.size() != all.len() || htree.size() != all.len() { fails.push(Failure::new("rtree-size-differs-from-atom-count", format!("{} {} {}", tree.size(), htree.size(), all.len()))); }
                let mut ids: Vec<String> = tree.iter().map(|a| a.id().to_string()).collect();
                ids.sort();
                let mut want_ids: Vec<String> = all.iter().map(|a| a.id().to_string()).collect();
                want_ids.sort();
                if ids != want_ids { fails.push(Failure::new("rtree-does-not-hold-every-atom-once", "")); }
                for (x, y, z, rad) in &queries {
                    let p = (undec6(*x), undec6(*y), undec6(*z));
                    let r2 = undec6(*rad) * undec6(*rad);
                    let d2 = |a: &Atom| (dec6(a.x()) - x).pow(2) as i128 + (dec6(a.y()) - y).pow(2) as i128 + (dec6(a.z()) - z).pow(2) as i128;
                    let mut got: Vec<String> = tree.locate_within_distance(p, r2).map(|a| a.id().to_string()).collect();
                    got.sort();
                    let mut want: Vec<String> = all.iter().filter(|a| d2(a) <= (*rad as i128) * (*rad as i128)).map(|a| a.id().to_string()).collect();
                    want.sort();
                    if got != want { fails.push(Failure::new("rtree-radius-query-differs-from-brute-force", format!("{:?} vs {:?}", got, want))); }
                    let mut hgot: Vec<String> = htree.locate_within_distance(p, r2).map(|h| {
                        // ancestors must be the atom's actual ancestors
                        let ok = h.conformer().atoms().any(|a| std::ptr::eq(a, h.atom())) && h.residue().conformers().any(|c| std::ptr::eq(c, h.conformer()))
                            && h.chain().residues().any(|x| std::ptr::eq(x, h.residue())) && h.model().chains().any(|c| std::ptr::eq(c, h.chain()));
                        format!("{}{}", h.atom().id(), if ok { "" } else { "!wrong-ancestors" })
                    }).collect();
                    hgot.sort();
                    if hgot != want { fails.push(Failure::new("hierarchy-rtree-radius-query-differs-from-brute-force", format!("{:?} vs {:?}", hgot, want))); }
                    let nn = tree.nearest_neighbor(&p).map(|a| d2(a));
                    let best = all.iter().map(|a| d2(a)).min();
                    if nn != best { fails.push(Failure::new("rtree-nearest-neighbour-not-nearest", format!("{:?} vs {:?}", nn, best))); }
                }
                fails
            });
            match res {
                Err(m) => ex.failures.push(Failure::new("rtree-panicked", m)),
                Ok(f) => { let mut seen = std::collections::HashSet::new(); for x in f { if seen.insert(x.kind.clone()) { ex.failures.push(x); } } }
            }
        }
        _ => panic!("unknown c14 op"),
    }
    ex
}
fn b_(v: bool) -> String { if v { "1".into() } else { "0".into() } }
