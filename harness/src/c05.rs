//! C05 — reading PDB-format input is total: never panics, always classifies (fault enumeration).
use crate::enc::*;
use crate::pdbio::*;
use crate::pdbtext;
use crate::rng::Rng;
use crate::{budget, guarded, Exec, Failure};

/// one canonical, well-formed line per supported record type
pub fn exemplars() -> Vec<(&'static str, String)> {
    vec![
        ("HEADER", pdbtext::header_line("HYDROLASE", "01-JAN-20", "1ABC")),
        ("REMARK", "REMARK   2 RESOLUTION.    1.74 ANGSTROMS.".to_string()),
        ("ATOM", "ATOM     12  CA AALA A  15B     11.104  -6.134  12.345  0.50 23.45      SEG1 C1+".to_string()),
        ("HETATM", "HETATM 2001  O   HOH B 301      -1.000   2.000  -3.500  1.00  5.00           O  ".to_string()),
        ("ANISOU", "ANISOU   12  CA AALA A  15B     1234   2345   3456   -123    234   -345       C1+".to_string()),
        ("CRYST1", pdbtext::cryst1_line(52_000_000, 58_600_000, 61_900_000, 90_000_000, 90_000_000, 90_000_000, "P 21 21 21", 8)),
        ("SCALE1", pdbtext::matrix_row_line("SCALE", 1, None, &[19_231, 0, 0, 0], false)),
        ("ORIGX2", pdbtext::matrix_row_line("ORIGX", 2, None, &[0, 1_000_000, 0, 0], false)),
        ("MTRIX3", pdbtext::matrix_row_line("MTRIX", 3, Some(1), &[0, 0, 1_000_000, 1_500_000], true)),
        ("MODEL", pdbtext::model_line(2)),
        ("ENDMDL", "ENDMDL".to_string()),
        ("TER", "TER      13      ALA A  15".to_string()),
        ("END", "END".to_string()),
        ("MASTER", pdbtext::master_line(1, 0, 0, 2, 1)),
        ("DBREF", "DBREF  1ABC A    1   100  UNP    P12345   TEST_HUMAN       1    100 ".to_string()),
        ("DBREF1", "DBREF1 1ABC A    1   100  UNP               TEST_HUMAN                   ".to_string()),
        ("DBREF2", "DBREF2 1ABC A     P12345                             1         100      ".to_string()),
        ("SEQRES", "SEQRES   1 A    3  ALA GLY SER                                            ".to_string()),
        ("SEQADV", "SEQADV 1ABC MET A   15  UNP  P12345    ALA    15 ENGINEERED MUTATION     ".to_string()),
        ("MODRES", "MODRES 1ABC ALA A   15B SER  PHOSPHOSERINE                               ".to_string()),
        ("SSBOND", "SSBOND   1 CYS A   15    CYS A   15                          1555   1555  2.03  ".to_string()),
    ]
}

/// the file a faulty line is embedded in (so that chain / residue look-ups have something to find)
fn embed(fault: &str, where_: usize) -> Vec<u8> {
    let mut lines = vec![
        "DBREF  1ABC A    1   100  UNP    P12345   TEST_HUMAN       1    100 ".to_string(),
        "ATOM     11  N  AALA A  15B     10.104  -6.134  12.345  0.50 23.45           N  ".to_string(),
        "ATOM     12  CA AALA A  15B     11.104  -6.134  12.345  0.50 23.45           C  ".to_string(),
        "ATOM     13  SG  CYS A  16      12.104  -6.134  12.345  1.00 23.45           S  ".to_string(),
        "END".to_string(),
    ];
    lines.insert(where_.min(lines.len()), fault.to_string());
    (lines.join("\n") + "\n").into_bytes()
}

const SUBS: &[char] = &[' ', '7', 'Q', '-', '+', '.', '\u{e9}', '\u{0}', '\u{2028}'];

pub fn gen(tier: &str, r: &mut Rng) -> Vec<String> {
    let mut out = Vec::new();
    let opts = Opts::all();
    let mut push = |out: &mut Vec<String>, r: &mut Rng, bytes: Vec<u8>, kind: &str| {
        if tier == "thorough" && kind != "multi" {
            // a sample of the 24 option combinations per input (all of them for the prefixes)
            for o in opts.iter().filter(|_| r.chance(1, 6)) { out.push(format!("c05 {} {} {} {}", kind, o.level_name(), o.flags(), enc_bytes(&bytes))); }
        }
        let o = opts[r.below(opts.len())];
        out.push(format!("c05 {} {} {} {}", kind, o.level_name(), o.flags(), enc_bytes(&bytes)));
    };
    for (name, line) in exemplars() {
        let cs: Vec<char> = line.chars().collect();
        // every prefix
        for k in 0..=cs.len() {
            let p: String = cs[..k].iter().collect();
            let pos = if name == "SSBOND" || name == "MODRES" || name == "MASTER" || name == "END" { 4 } else { 1 };
            push(&mut out, r, embed(&p, pos), "prefix");
        }
        // every prefix with one multi-byte character somewhere in it (byte length and character count differ:
        // guards that test the one and index by the other)
        for k in 7..=cs.len() {
            for &c in &['\u{e9}', '\u{20ac}', '\u{1f600}'] {
                if tier != "thorough" && !r.chance(1, 2) { continue; }
                let mut v: Vec<char> = cs[..k].to_vec();
                let at = if r.chance(1, 2) { 6 + r.below(k - 6) } else { (12 + r.below(6)).min(k - 1) };
                v[at] = c;
                push(&mut out, r, embed(&v.iter().collect::<String>(), 1), "prefix-multibyte");
            }
        }
        // every single-column substitution / insertion / deletion
        for k in 0..cs.len() {
            for &c in SUBS {
                if tier != "thorough" && !r.chance(1, 3) { continue; }
                let mut v = cs.clone(); v[k] = c;
                push(&mut out, r, embed(&v.iter().collect::<String>(), 1), "subst");
            }
            if tier == "thorough" || r.chance(1, 2) {
                let mut v = cs.clone(); v.remove(k);
                push(&mut out, r, embed(&v.iter().collect::<String>(), 1), "delete");
                let mut v = cs.clone(); v.insert(k, *r.pick(SUBS));
                push(&mut out, r, embed(&v.iter().collect::<String>(), 1), "insert");
            }
        }
    }
    // thresholds of internal counters: the fall-back chain letter advances on every TER record (26 letters),
    // atom serial numbers wrap after 99999, residue numbers after 9999
    for k in [0usize, 1, 24, 25, 26, 27, 28, 51, 52, 53, 80, 200] {
        let mut lines: Vec<String> = Vec::new();
        for i in 0..k {
            if i % 3 == 0 { lines.push(format!("ATOM  {:>5}  CA  ALA {}{:>4}    {:>8.3}{:>8.3}{:>8.3}  1.00 10.00           C  ", i + 1, (b'A' + (i % 26) as u8) as char, i + 1, i as f64, 0.0, 0.0)); }
            lines.push("TER".to_string());
        }
        lines.push(format!("HETATM{:>5}  O   HOH  {:>4}    {:>8.3}{:>8.3}{:>8.3}  1.00 10.00           O  ", 9000, 1, 1.0, 2.0, 3.0));
        lines.push("END".to_string());
        push(&mut out, r, (lines.join("\n") + "\n").into_bytes(), "threshold");
    }
    for (a, b2) in [(99_998usize, 9_998i64), (99_999, 9_999), (0, 0)] {
        let mut lines: Vec<String> = Vec::new();
        for i in 0..4usize { lines.push(format!("ATOM  {:>5}  CA  ALA A{:>4}    {:>8.3}{:>8.3}{:>8.3}  1.00 10.00           C  ", (a + i) % 100_000, (b2 + i as i64) % 10_000, i as f64, 0.0, 0.0)); }
        lines.push("END".to_string());
        push(&mut out, r, (lines.join("\n") + "\n").into_bytes(), "threshold");
    }
    // SEQRES records of one or two chains over several lines, with mismatches against the ATOM records at random
    // positions (the mismatch diagnostic quotes SEQRES lines: they must stand at the reported numbers)
    for _ in 0..budget(tier, 60, 3000) {
        let mut lines: Vec<String> = Vec::new();
        for _ in 0..r.below(3) { lines.push("REMARK   2 RESOLUTION.    1.74 ANGSTROMS.".to_string()); }
        let names = ["ALA", "GLY", "SER", "LYS", "CYS"];
        let nchains = 1 + r.below(2);
        let mut seqs: Vec<(char, Vec<&str>)> = Vec::new();
        for ci in 0..nchains { let n = 1 + r.below(30); seqs.push(((b'A' + ci as u8) as char, (0..n).map(|_| *r.pick(&names)).collect())); }
        let first_seqres = lines.len();
        for (ch, seq) in &seqs {
            for (k, chunk) in seq.chunks(13).enumerate() { lines.push(format!("SEQRES {:>3} {} {:>4}  {}", k + 1, ch, seq.len(), chunk.join(" "))); }
        }
        // the SEQRES records need not stand on consecutive lines: other records (or blank lines) between them,
        // and the records of two chains taking turns
        if r.chance(1, 3) {
            for _ in 0..1 + r.below(3) {
                let at = first_seqres + r.below(lines.len() - first_seqres + 1);
                lines.insert(at, r.pick(&["REMARK   2 BETWEEN", "", "REMARK 300 X", "SEQADV 1ABC GLY Z    1  UNP  P12345              EXPRESSION TAG"]).to_string());
            }
        }
        if nchains > 1 && r.chance(1, 4) {
            // keep the order of each chain's own records, let the chains alternate
            let block: Vec<String> = lines.drain(first_seqres..).collect();
            let (mut a, mut b): (Vec<String>, Vec<String>) = block.into_iter().partition(|l| l.chars().nth(11) != Some('B'));
            a.reverse(); b.reverse();
            while !a.is_empty() || !b.is_empty() {
                if !a.is_empty() && (b.is_empty() || r.chance(1, 2)) { lines.push(a.pop().unwrap()); } else { lines.push(b.pop().unwrap()); }
            }
        }
        let mut serial = 0;
        for (ch, seq) in &seqs {
            for (i, n) in seq.iter().enumerate() {
                let name = if r.chance(1, 6) { *r.pick(&names) } else { n };
                if r.chance(1, 12) { continue; }
                serial += 1;
                lines.push(format!("ATOM  {:>5}  CA  {} {}{:>4}    {:>8.3}{:>8.3}{:>8.3}  1.00 10.00           C  ", serial, name, ch, i, i as f64, 0.0, 0.0));
            }
            lines.push("TER".to_string());
        }
        lines.push("END".to_string());
        push(&mut out, r, (lines.join("\n") + "\n").into_bytes(), "seqres");
    }
    // REMARK lines around the 80-column limit whose length in bytes and in characters differ, and with a tab inside
    for n in 60..=74usize {
        for pre in ["\u{c5}", "\u{c5}\u{c5}", "\t", "\u{20ac}"] {
            let text = format!("REMARK   1 {}{}\nATOM      1  CA  ALA A   1       1.000   2.000   3.000  1.00 10.00           C  \nEND\n", pre, "X".repeat(n));
            push(&mut out, r, text.into_bytes(), "remark-bytes-vs-chars");
        }
    }
    // SEQRES documents that walk validate_seqres through all of its branches
    for _ in 0..budget(tier, 300, 12_000) {
        let lines = pdbtext::gen_seqres_doc(r);
        push(&mut out, r, (lines.join("\n") + "\n").into_bytes(), "seqres-branches");
    }
    // multi-fault mutations of generated documents
    let n = budget(tier, 1500, 60_000);
    for _ in 0..n {
        let d = pdbtext::gen_doc(r, true);
        let mut lines = pdbtext::render(&d, r, true);
        if r.chance(1, 3) { lines.insert(r.below(lines.len() + 1), exemplars()[r.below(21)].1.clone()); }
        for _ in 0..1 + r.below(4) {
            if lines.is_empty() { break; }
            let i = r.below(lines.len());
            match r.below(9) {
                0 => { lines.remove(i); }
                1 => { let l = lines[i].clone(); lines.insert(i, l); }
                2 => { let j = r.below(lines.len()); lines.swap(i, j); }
                3 => { let mut cs: Vec<char> = lines[i].chars().collect(); if !cs.is_empty() { let k = r.below(cs.len()); cs[k] = *r.pick(SUBS); } lines[i] = cs.into_iter().collect(); }
                4 => { let cs: Vec<char> = lines[i].chars().collect(); let k = r.below(cs.len() + 1); lines[i] = cs[..k].iter().collect(); }
                5 => { let mut cs: Vec<char> = lines[i].chars().collect(); let k = r.below(cs.len() + 1); cs.insert(k, *r.pick(&['\t', '\u{7f}', '\u{1}', '\u{fffd}', '\u{1f600}'])); lines[i] = cs.into_iter().collect(); }
                6 => { pdbtext::mutate_for_diag(&mut lines, r); }
                7 => { lines[i] = format!("{}{}", lines[i], "x".repeat(r.below(40))); }
                _ => { let mut cs: Vec<char> = lines[i].chars().collect(); if cs.len() > 12 { let k = 6 + r.below(cs.len() - 6); let w = *r.pick(&["nan", "inf", "1e400", "-0", "+5", "1e3"]); for (j, c) in w.chars().enumerate() { if k + j < cs.len() { cs[k + j] = c; } } } lines[i] = cs.into_iter().collect(); }
            }
        }
        let mut bytes = (lines.join(if r.chance(1, 8) { "\r\n" } else { "\n" }) + if r.chance(1, 4) { "" } else { "\n" }).into_bytes();
        if r.chance(1, 15) && !bytes.is_empty() { let k = r.below(bytes.len()); bytes[k] = *r.pick(&[0xffu8, 0xc3, 0x80, 0xe2]); }
        push(&mut out, r, bytes, "multi");
    }
    out
}

/// `BufRead::lines`
pub fn split_lines(text: &str) -> Vec<String> {
    text.split('\n').map(|l| l.strip_suffix('\r').unwrap_or(l).to_string()).collect()
}

pub fn exec(case: &str) -> Exec { exec_fmt(case, "c05", "pdb") }

pub fn exec_fmt(case: &str, tag: &str, fmt: &str) -> Exec {
    let mut t = crate::st::Toks::new(case);
    t.expect(tag).unwrap();
    let kind = t.next().unwrap().to_string();
    let level = t.next().unwrap().to_string();
    let flags = t.next().unwrap().to_string();
    let bytes = dec_bytes(t.next().unwrap()).unwrap();
    let o = Opts::parse(&level, &flags);
    let r = read(fmt, &o, &bytes);
    let mut ex = Exec::new("", if fmt == "pdb" { outcome_tok(&r) } else { strip_lines(&outcome_tok(&r)) });
    ex.tags.push(format!("kind:{kind}"));
    ex.tags.push(format!("opts:{}:{}", level, flags));
    let text = String::from_utf8(bytes.clone());
    let has_seqres = fmt == "pdb" && !o.atomic_only && text.as_ref().map_or(false, |t| split_lines(t).iter().any(|l| l.len() > 6 && l.starts_with("SEQRES")));
    ex.req = match &text {
        Ok(_) => format!("{} read {} {} {}", if fmt == "pdb" { "pdb" } else { "cif" }, level, flags, enc_bytes(&bytes)),
        _ => "-".into(),
    };
    if text.is_err() { ex.tags.push("invalid-utf8".into()); }
    if has_seqres { ex.tags.push("seqres-records:yes".into()); }
    let diags = match &r {
        Read::Panic(m) => {
            ex.failures.push(Failure::new("reader-panicked", m.chars().take(160).collect::<String>()).feat("format", fmt).feat("site", panic_site(m)));
            ex.tags.push("outcome:PANIC".into());
            return ex;
        }
        Read::Ok(_, d) => { ex.tags.push("outcome:OK".into()); d }
        Read::Err(d) => { ex.tags.push("outcome:ERR".into()); if d.is_empty() { ex.failures.push(Failure::new("empty-rejection-list", "")); } d }
    };
    let lines = text.as_ref().map(|t| split_lines(t)).unwrap_or_default();
    for d in diags.iter() {
        ex.tags.push(format!("diag:{}", d.short_description()));
        // every diagnostic can be rendered as text
        match guarded(|| format!("{} {:?}", d, d)) {
            Err(m) => { ex.failures.push(Failure::new("rendering-a-diagnostic-panicked", m).feat("diag", d.short_description())); }
            Ok(s) => if s.is_empty() { ex.failures.push(Failure::new("diagnostic-renders-empty", "")); },
        }
        // ... and what the rendered text shows under a line number is the input line with that number
        if fmt == "pdb" && text.is_ok() {
            if let Ok(s) = guarded(|| format!("{}", d)) {
                for (n, t) in rendered_numbered_lines(&s) {
                    if n == 0 || lines.get(n - 1) != Some(&t) {
                        ex.failures.push(Failure::new("rendered-diagnostic-shows-a-line-under-the-wrong-number", format!("line {} shown as {:?}", n, t.chars().take(40).collect::<String>())).feat("diag", d.short_description()));
                        break;
                    }
                }
            }
        }
        // a diagnostic anchored to a line quotes the line that stands at the reported number
        if fmt == "pdb" && text.is_ok() {
            let mut q = Vec::new();
            quoted(d.context(), &mut q);
            for (n, l) in q {
                if n == 0 || lines.get(n - 1) != Some(&l) {
                    ex.failures.push(Failure::new("diagnostic-quotes-a-line-that-is-not-at-the-reported-number", format!("line {} quoted {:?}", n, l.chars().take(40).collect::<String>())).feat("diag", d.short_description()));
                    break;
                }
            }
        }
    }
    ex
}

/// the `<number> │ <text>` lines of a rendered diagnostic
pub fn rendered_numbered_lines(rendered: &str) -> Vec<(usize, String)> {
    let mut out = Vec::new();
    for l in rendered.split('\n') {
        let digits: String = l.chars().take_while(|c| c.is_ascii_digit()).collect();
        if digits.is_empty() { continue; }
        let rest = &l[digits.len()..];
        let rest = rest.trim_start_matches(' ');
        if let Some(t) = rest.strip_prefix("│ ") {
            if let Ok(n) = digits.parse::<usize>() { out.push((n, t.to_string())); }
        }
    }
    out
}

/// a short stable label for the panic message (for the findings file)
pub fn panic_site(m: &str) -> String {
    m.split(|c: char| c == ':' || c == '"' || c.is_ascii_digit()).next().unwrap_or("").trim().chars().take(48).collect()
}
